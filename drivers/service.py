"""Request catalogue for the HTTP service (C20): valid requests of every method, each documented input
constraint violated one at a time, malformed and mistyped bodies, byte-level mutations."""
import copy, json
import pipeline
from pipeline import PU


def base_requests(rng):
    out = []
    for m in pipeline.METHODS:
        for _ in range(2):
            out.append(pipeline.gen_data(rng, m, n=3, m=3, extra=1, declared=True))
    return out


def with_bias(rng, req, name):
    r = copy.deepcopy(req)
    r['biases'] = [pipeline.gen_bias(rng, name, r, len(r['criteria']))]
    if name == 'criteriaOmission':
        r['biases'][0]['props']['max'] = 1
        r['biases'][0]['props'].pop('min', None)
    return r


def mutations(rng, req):
    """yield (label, request, expect, extra-flags)"""
    m = req['preferenceFunction']
    cs = [c['id'] for c in req['criteria']]

    def mut(f):
        r = copy.deepcopy(req)
        f(r)
        return r
    yield 'method-unknown', mut(lambda r: r.update(preferenceFunction='noSuchMethod')), 'reject', {'mustListAvailable': True}
    yield 'method-blank', mut(lambda r: r.update(preferenceFunction='  ')), 'reject', {}
    yield 'bias-unknown', mut(lambda r: r['biases'].append({'name': 'noSuchBias', 'props': {}})), 'reject', {'mustListAvailable': True}
    yield 'bias-unknown-never-fires', mut(lambda r: r['biases'].append({'name': 'noSuchBias', 'applyProbability': 0, 'props': {}})), 'reject', {'mustListAvailable': True}
    yield 'bias-unknown-first-never-fires', mut(lambda r: r['biases'].insert(0, {'name': 'noSuchBias', 'applyProbability': 0})), 'reject', {'mustListAvailable': True}
    yield 'chose-nothing', mut(lambda r: r.update(choseToMake=[])), 'any', {}
    yield 'chose-missing', mut(lambda r: r.pop('choseToMake')), 'any', {}
    yield 'bias-unknown-disabled', mut(lambda r: r['biases'].append({'name': 'noSuchBias', 'disabled': True})), 'ok', {}
    yield 'criterion-duplicate', mut(lambda r: r['criteria'].append(dict(r['criteria'][0]))), 'reject', {}
    yield 'range-empty', mut(lambda r: r['criteria'][0].update(valuesRange={'min': PU, 'max': PU})), 'reject', {}
    yield 'range-inverted', mut(lambda r: r['criteria'][0].update(valuesRange={'min': 2 * PU, 'max': PU})), 'reject', {}
    yield 'value-missing', mut(lambda r: r['knownAlternatives'][-1]['criteria'].pop(cs[0])), 'reject', {}
    yield 'alternative-unknown', mut(lambda r: r['choseToMake'].append('nobody')), 'reject', {}
    mp = req['methodParameters']
    if m in ('weightedSum', 'owa', 'majorityHeuristic', 'aspectEliminationHeuristic'):
        yield 'weight-missing', mut(lambda r: r['methodParameters']['weights'].pop(cs[0])), 'reject', {}
        yield 'weights-missing', mut(lambda r: r['methodParameters'].pop('weights')), 'reject', {}
    if m == 'owa':
        yield 'owa-extra-weight', mut(lambda r: r['methodParameters']['weights'].update(zz=PU)), 'reject', {}
    if m == 'choquetIntegral':
        yield 'choquet-weight-above-1', mut(lambda r: r['methodParameters']['weights'].update({cs[0]: PU + PU // 4})), 'reject', {}
        yield 'choquet-weight-negative', mut(lambda r: r['methodParameters']['weights'].update({cs[0]: -PU // 4})), 'reject', {}
        yield 'choquet-cost-criterion', mut(lambda r: r['criteria'][0].update(type='cost')), 'reject', {}
        yield 'choquet-subset-missing', mut(lambda r: r['methodParameters']['weights'].pop(','.join(sorted(cs[:2])))), 'reject', {'structured': False}
    if m == 'electreIII':
        yield 'electre-k-zero', mut(lambda r: r['methodParameters']['electreCriteria'][cs[0]].update(k=0)), 'reject', {}
        yield 'electre-k-negative', mut(lambda r: r['methodParameters']['electreCriteria'][cs[0]].update(k=-PU)), 'reject', {}
        yield 'electre-p-not-above-q', mut(lambda r: r['methodParameters']['electreCriteria'][cs[0]].update(q={'b': 2 * PU}, p={'b': 2 * PU})), 'reject', {}
        yield 'electre-v-not-above-p', mut(lambda r: r['methodParameters']['electreCriteria'][cs[0]].update(q={'b': PU}, p={'b': 3 * PU}, v={'b': 2 * PU})), 'reject', {}
        yield 'electre-q-negative', mut(lambda r: r['methodParameters']['electreCriteria'][cs[0]].update(q={'b': -PU})), 'reject', {}
        yield 'electre-criterion-missing', mut(lambda r: r['methodParameters']['electreCriteria'].pop(cs[0])), 'reject', {}
        # admissible distillation functions at the edge: zero everywhere, zero at credibility 1, no coefficients given
        yield 'electre-distillation-zero', mut(lambda r: r['methodParameters'].update(electreDistillation={'a': 0, 'b': 0})), 'ok', {'timeoutSec': 40}
        yield 'electre-distillation-zero-at-one', mut(lambda r: r['methodParameters'].update(electreDistillation={'a': -(PU // 4), 'b': PU // 4})), 'ok', {'timeoutSec': 40}
        yield 'electre-distillation-empty', mut(lambda r: r['methodParameters'].update(electreDistillation={'emptyobj': True})), 'any', {'timeoutSec': 40}
        yield 'electre-distillation-negative', mut(lambda r: r['methodParameters'].update(electreDistillation={'a': {'n': -1, 'd': 5}, 'b': {'n': 1, 'd': 10}})), 'reject', {'structured': False, 'timeoutSec': 40}
        yield 'electre-distillation-negative-b', mut(lambda r: r['methodParameters'].update(electreDistillation={'a': 0, 'b': -PU // 8})), 'reject', {'timeoutSec': 40}
    if m == 'majorityHeuristic':
        yield 'draw-resolution-unknown', mut(lambda r: r['methodParameters'].update(drawResolution='coin')), 'reject', {}
    if m in ('majorityHeuristic', 'satisfactionHeuristic'):
        yield 'current-choice-unknown', mut(lambda r: r['methodParameters'].update(currentChoice='nobody')), 'reject', {}
    if m in ('aspectEliminationHeuristic', 'satisfactionHeuristic'):
        yield 'levels-function-unknown', mut(lambda r: r['methodParameters'].update(function='noSuchLevels')), 'reject', {}
        yield 'levels-function-missing', mut(lambda r: r['methodParameters'].pop('function')), 'reject', {}
        for lab, par in (('coefficient-0', {'coefficient': 0, 'minValue': PU // 4, 'maxValue': PU}),
                         ('coefficient-1', {'coefficient': PU, 'minValue': PU // 4, 'maxValue': PU}),
                         ('max-above-1', {'coefficient': PU // 2, 'minValue': PU // 4, 'maxValue': PU + PU // 4}),
                         ('min-above-1', {'coefficient': PU // 2, 'minValue': PU + PU // 4, 'maxValue': PU}),
                         ('min-negative', {'coefficient': PU // 2, 'minValue': -PU // 4, 'maxValue': PU})):
            yield 'levels-' + lab, mut(lambda r: r['methodParameters'].update(function='idealMultipliedCoefficient', params=dict(par))), 'reject', {}
        yield 'threshold-criterion-missing', mut(lambda r: r['methodParameters'].update(function='thresholds', params={'thresholds': [{c: PU for c in cs[1:]}]})), 'reject', {}


def bias_mutations(rng, req):
    def one(name, f, expect='reject', **kw):
        r = with_bias(rng, req, name)
        f(r['biases'][0]['props'])
        return name + '-' + f.__name__, r, expect, kw
    for nm in ('criteriaOmission', 'preferenceReversal'):
        def ratio_above_1(p): p['ratio'] = PU + PU // 4
        def ratio_negative(p): p['ratio'] = -PU // 4
        def max_below_min(p): p.update(min=2, max=1)
        def ordering_unknown(p): p['ordering'] = 'alphabetical'
        for f in (ratio_above_1, ratio_negative, max_below_min, ordering_unknown):
            yield one(nm, f)
    def function_unknown(p): p['function'] = 'sigmoid'
    def bounding_scaling_zero(p): p['allowedValuesRangeScaling'] = 0
    yield one('fatigue', function_unknown)
    yield one('fatigue', bounding_scaling_zero)
    def scaling_zero(p): p['newCriterionScaling'] = 0
    def reference_type_unknown(p): p['referenceCriterionType'] = 'oracle'
    yield one('criteriaConcealment', scaling_zero)
    yield one('criteriaConcealment', reference_type_unknown)
    yield one('criteriaConcealment', bounding_scaling_zero)
    def mixing_ratio_above_1(p): p['mixingRatio'] = PU + PU // 4
    def mixing_ratio_negative(p): p['mixingRatio'] = -PU // 4
    yield one('criteriaMixing', mixing_ratio_above_1)
    yield one('criteriaMixing', mixing_ratio_negative)
    yield one('criteriaMixing', reference_type_unknown)
    def no_anchoring_alternatives(p): p['anchoringAlternatives'] = []
    def anchoring_alternative_unknown(p): p['anchoringAlternatives'] = [{'alternative': 'nobody', 'coefficient': PU}]
    def loss_function_unknown(p): p['loss'] = {'function': 'cubic', 'params': {}}
    def gain_function_unknown(p): p['gain'] = {'function': 'cubic', 'params': {}}
    def applier_unknown(p): p['applier'] = {'function': 'teleport', 'params': {}}
    def reference_points_unknown(p): p['referencePoints'] = {'function': 'median'}
    for f in (no_anchoring_alternatives, anchoring_alternative_unknown, loss_function_unknown, gain_function_unknown, applier_unknown, reference_points_unknown):
        yield one('anchoring', f)


RAW_BODIES = [
    ('empty', ''), ('not-json', '{not json'), ('array', '[1,2,3]'), ('string', '"hello"'), ('number', '42'), ('null', 'null'),
    ('truncated', '{"preferenceFunction": "weightedSum", "knownAlternatives": [{"id": "a1", "criteria": {"c1": 1'),
    ('empty-object', '{}'),
    ('mistyped-criteria', '{"preferenceFunction":"weightedSum","criteria":"c1","knownAlternatives":[],"choseToMake":[]}'),
    ('mistyped-known', '{"preferenceFunction":"weightedSum","criteria":[],"knownAlternatives":{"a":1},"choseToMake":[]}'),
    ('mistyped-value', '{"preferenceFunction":"weightedSum","criteria":[{"id":"c1","type":"gain"}],"knownAlternatives":[{"id":"a1","criteria":{"c1":"high"}}],"choseToMake":["a1"],"methodParameters":{"weights":{"c1":1}}}'),
    ('mistyped-weights', '{"preferenceFunction":"weightedSum","criteria":[{"id":"c1","type":"gain"}],"knownAlternatives":[{"id":"a1","criteria":{"c1":1}}],"choseToMake":["a1"],"methodParameters":{"weights":[1,2]}}'),
    ('mistyped-biases', '{"preferenceFunction":"weightedSum","criteria":[{"id":"c1","type":"gain"}],"knownAlternatives":[{"id":"a1","criteria":{"c1":1}}],"choseToMake":["a1"],"methodParameters":{"weights":{"c1":1}},"biases":[17]}'),
    ('mistyped-seed', '{"preferenceFunction":"weightedSum","criteria":[{"id":"c1","type":"gain"}],"knownAlternatives":[{"id":"a1","criteria":{"c1":1}}],"choseToMake":["a1"],"methodParameters":{"weights":{"c1":1}},"biasApplyRandomSeed":"x"}'),
    ('extreme-values', '{"preferenceFunction":"weightedSum","criteria":[{"id":"c1","type":"gain"}],"knownAlternatives":[{"id":"a1","criteria":{"c1":1e308}},{"id":"a2","criteria":{"c1":-1e308}}],"choseToMake":["a1","a2"],"methodParameters":{"weights":{"c1":1e308}}}'),
    ('huge-exponent', '{"preferenceFunction":"weightedSum","criteria":[{"id":"c1","type":"gain"}],"knownAlternatives":[{"id":"a1","criteria":{"c1":1e999}}],"choseToMake":["a1"],"methodParameters":{"weights":{"c1":1}}}'),
    ('no-alternatives', '{"preferenceFunction":"majorityHeuristic","criteria":[{"id":"c1","type":"gain"}],"knownAlternatives":[],"choseToMake":[],"methodParameters":{"weights":{"c1":1}}}'),
    ('deep-nesting', '{"preferenceFunction":"weightedSum","methodParameters":' + '{"a":' * 200 + '1' + '}' * 200 + '}'),
    ('null-fields', '{"preferenceFunction":null,"criteria":null,"knownAlternatives":null,"choseToMake":null,"methodParameters":null,"biases":null}'),
]


def catalogue(tier, rng):
    """list of cases (dicts) in session order"""
    cases = []

    def add(label, req=None, raw=None, expect='any', structured=True, **kw):
        c = {'fam': 'service', 'unit': PU, 'label': label, 'expect': expect}
        if raw is not None:
            c['rawBody'] = raw
        else:
            c['req'] = req
            c['structured'] = structured
        c.update(kw)
        cases.append(c)
    bases = base_requests(rng)
    for b in bases:
        add('valid', req=b, expect='ok')
    # valid but unusual: identical alternatives (nobody can ever be eliminated or preferred), levels up to the full range
    for b in bases:
        r = copy.deepcopy(b)
        r['knownAlternatives'][1]['criteria'] = dict(r['knownAlternatives'][0]['criteria'])
        r['choseToMake'] = [a['id'] for a in r['knownAlternatives'][:3]]
        mp = r['methodParameters']
        if r['preferenceFunction'] == 'aspectEliminationHeuristic':
            mp['function'] = rng.choice(['idealAdditiveCoefficient', 'idealMultipliedCoefficient'])
            mp['params'] = {'coefficient': PU // 2, 'minValue': 0, 'maxValue': PU}
            best = {c['id']: ((c['valuesRange']['max'] if 'valuesRange' in c else PU * 8) if c.get('type', 'gain') == 'gain'
                              else (c['valuesRange']['min'] if 'valuesRange' in c else -PU * 3)) for c in r['criteria']}
            r['knownAlternatives'][0]['criteria'] = dict(best)
            r['knownAlternatives'][1]['criteria'] = dict(best)
        if r['preferenceFunction'] == 'satisfactionHeuristic':
            mp['function'] = rng.choice(['idealSubtractiveCoefficient', 'idealMultipliedCoefficient'])
            mp['params'] = {'coefficient': PU // 2, 'minValue': PU // 4, 'maxValue': PU}
        add('valid-identical-alternatives', req=r, expect='ok')
    # many alternatives (the service may treat big requests differently): valid ones are answered, and a value for a
    # criterion nobody declared - whatever the answer to that is - must not cost the process
    for b in bases:
        r = copy.deepcopy(b)
        proto = r['knownAlternatives']
        big = []
        for i in range(20):
            a = copy.deepcopy(proto[i % len(proto)])
            a['id'] = 'big%02d' % i
            for c in a['criteria']:
                a['criteria'][c] += PU * (i % 3)
            big.append(a)
        r['knownAlternatives'] = big
        r['choseToMake'] = [a['id'] for a in big[:18]]
        mp = r['methodParameters']
        if 'currentChoice' in mp:
            mp['currentChoice'] = big[19]['id']
        for bb in r.get('biases', []):
            if bb['name'] == 'anchoring':
                for aa in bb['props'].get('anchoringAlternatives', []):
                    aa['alternative'] = big[0]['id']
        add('valid-many-alternatives', req=r, expect='ok')
        r2 = copy.deepcopy(r)
        r2['knownAlternatives'][17]['criteria']['zz_nobody_declared'] = PU
        add('many-alternatives-undeclared-value', req=r2, expect='any')
    # criterion ids that look like the ids the criterion-adding biases generate: any answer, but an answer
    for ids in (['__concealedCriterion__2', '__concealedCriterion__3'], ['__concealedCriterion__', '__concealedCriterion__1'],
                ['__concealedCriterion__1', '__concealedCriterion__2', '__concealedCriterion__3']):
        for mth in ('owa', 'majorityHeuristic'):
            known = [{'id': 'a%d' % (i + 1), 'criteria': {c: PU * ((i + j) % 3 + 1) for j, c in enumerate(ids)}} for i in range(3)]
            r = {'preferenceFunction': mth, 'knownAlternatives': known, 'choseToMake': ['a1', 'a2', 'a3'],
                 'criteria': [{'id': c, 'type': 'gain'} for c in ids], 'methodParameters': {'weights': {c: PU for c in ids}},
                 'biases': [{'name': 'criteriaConcealment', 'applyProbability': PU, 'props': {'randomSeed': 3}}]}
            add('generated-looking-criterion-ids', req=r, expect='any')
    for b in bases[::2]:
        for label, r, exp, kw in mutations(rng, b):
            add(label, req=r, expect=exp, **kw)
    for b in bases[1::4]:
        for label, r, exp, kw in bias_mutations(rng, b):
            add(label, req=r, expect=exp, **kw)
    for label, raw in RAW_BODIES:
        add('raw-' + label, raw=raw, expect='reject' if label in ('empty', 'not-json', 'truncated', 'mistyped-criteria', 'mistyped-known', 'mistyped-value') else 'any')
    # byte-level mutations of valid bodies: some answer (200 or 400), and the process survives
    nb = 40 if tier == 'quick' else 2000
    for i in range(nb):
        b = rng.choice(bases)
        s = json.dumps(pipeline_real(b))
        k = rng.randint(0, len(s) - 1)
        r = rng.random()
        if r < 0.3:
            s = s[:k]
        elif r < 0.6:
            s = s[:k] + rng.choice('{}[],:"0-e9.x') + s[k + 1:]
        elif r < 0.8:
            s = s[:k] + s[k + 1:]
        else:
            s = s[:k] + rng.choice(['null', '1e400', '-0', '[]', '{}', '""']) + s[k:]
        add('bytes', raw=s, expect='any')
    if tier == 'thorough':
        for _ in range(1500):
            add('valid-random', req=pipeline.pipeline_case(rng), expect='ok')
    # a valid request after everything else: the service still answers
    add('valid-last', req=bases[0], expect='ok')
    return cases


def pipeline_real(req):
    """the request with numbers divided by the unit (what the harness would send), for byte-level mutation"""
    def walk(v, key='', parent=''):
        if isinstance(v, bool):
            return v
        if isinstance(v, (int, float)):
            if key in ('randomSeed', 'biasApplyRandomSeed', 'newCriterionRandomSeed', 'queryNumber') or (key in ('min', 'max') and parent != 'valuesRange'):
                return v
            return v / PU
        if isinstance(v, dict):
            if set(v.keys()) == {'n', 'd'}:
                return v['n'] / v['d']
            return {k: walk(x, k, key) for k, x in v.items()}
        if isinstance(v, list):
            return [walk(x, key, parent) for x in v]
        return v
    return walk(req)
