"""Family registry: which TLA+ modules, harness mode and case drivers make up each family, and which
families decide which property.  Drivers generate cases TLC did not enumerate (larger random
instances, boundary grids, the repository's examples) in the same case format; they never judge."""
import json, os, itertools, copy

UNIT = 256
Q = UNIT // 4

ALT = ['a%d' % i for i in range(1, 13)]
CRIT = ['c%d' % i for i in range(1, 7)]


def crit(j, ty='gain', rng=None):
    c = {'id': CRIT[j], 'type': ty}
    if rng is not None:
        c['valuesRange'] = {'min': rng[0], 'max': rng[1]}
    return c


def alts(tab, m):
    return [{'id': ALT[i], 'criteria': {CRIT[j]: tab[i][j] for j in range(m)}} for i in range(len(tab))]


def setkey(cs):
    return ','.join(sorted(cs))


def subsets(cs):
    out = []
    for r in range(1, len(cs) + 1):
        out.extend(itertools.combinations(cs, r))
    return out


def base_case(req, **kw):
    c = {'fam': 'drv', 'unit': UNIT, 'hook': True, 'via': 'http', 'expect': 'ok', 'failprop': 'C01', 'req': req}
    c.update(kw)
    return c


def perm_twins(rng, req, p, k=1):
    """the request plus k copies listing the alternatives in other orders"""
    out = [req]
    for _ in range(k):
        r = copy.deepcopy(req)
        rng.shuffle(r['knownAlternatives'])
        rng.shuffle(r['choseToMake'])
        out.append(r)
    return out


# ---------------------------------------------------------------- utility
def drv_utility(tier, rng):
    groups = []
    N = 150 if tier == 'quick' else 3000
    for t in range(N):
        method = rng.choice(['weightedSum', 'owa', 'choquetIntegral'])
        n = rng.randint(1, 8)
        m = rng.randint(1, 4 if method == 'choquetIntegral' else 5)
        tiey = rng.random() < 0.5
        vals = [-8, -3, 0, 1, 2, 6, 10, 16] if not tiey else [0, 4, 8]
        tab = [[Q * rng.choice(vals) for _ in range(m)] for _ in range(n)]
        types = ['gain' if method == 'choquetIntegral' or rng.random() < 0.6 else 'cost' for _ in range(m)]
        cs = CRIT[:m]
        if method == 'choquetIntegral':
            w = {setkey(s): Q * rng.choice([0, 1, 2, 3, 4]) for s in subsets(cs)}
        else:
            w = {c: Q * rng.choice([0, 1, 2, 3, 6]) for c in cs}
        known = alts(tab, m)
        nchose = rng.randint(1, n)
        chose = [a['id'] for a in rng.sample(known, nchose)]
        req = {'preferenceFunction': method, 'knownAlternatives': known, 'choseToMake': chose,
               'criteria': [crit(j, types[j]) for j in range(m)], 'methodParameters': {'weights': w}, 'biases': []}
        g = []
        for r in perm_twins(rng, req, 'C04', 2):
            g.append(base_case(r, exactprop='C03', group={'id': 'x', 'rel': 'perm', 'p': 'C04'}))
        groups.append(g)
    return groups



# ---------------------------------------------------------------- majority
def heur_req(rng, method, n, m, vals, extra_known=0, types=None):
    tab = [[UNIT * rng.choice(vals) for _ in range(m)] for _ in range(n + extra_known)]
    types = types or ['gain' if rng.random() < 0.6 else 'cost' for _ in range(m)]
    known = alts(tab, m)
    chose = [a['id'] for a in known[:n]]
    rng.shuffle(chose)
    return {'preferenceFunction': method, 'knownAlternatives': known, 'choseToMake': chose,
            'criteria': [crit(j, types[j]) for j in range(m)], 'methodParameters': {}, 'biases': []}


def drv_majority(tier, rng):
    groups = []
    N = 300 if tier == 'quick' else 6000
    for t in range(N):
        n = rng.randint(1, 8)
        m = rng.randint(1, 4)
        extra = rng.choice([0, 0, 1, 2])
        req = heur_req(rng, 'majorityHeuristic', n, m, [0, 1, 2] if rng.random() < 0.6 else [0, 1, 2, 3, 5, 8], extra)
        mp = {'weights': {CRIT[j]: UNIT * rng.choice([1, 1, 2, 3]) for j in range(m)},
              'randomSeed': rng.randint(0, 10 ** 6)}
        pol = rng.choice(['allow', 'current', 'newer', 'random', None])
        if pol:
            mp['drawResolution'] = pol
        r = rng.random()
        if r < 0.3:
            mp['currentChoice'] = rng.choice(req['choseToMake'])
        elif r < 0.5 and extra:
            mp['currentChoice'] = req['knownAlternatives'][n]['id']
        if rng.random() < 0.3:
            mp['randomAlternativesOrdering'] = True
        req['methodParameters'] = mp
        groups.append([base_case(req, exactprop='C11', refmax=5)])
    return groups


def nt_ties(o):
    """non-trivial for ranking shape: at least two entries and at least one tie or two levels"""
    r = o.get('resp', {}).get('result', [])
    return isinstance(r, list) and len(r) >= 2


def nt_formula(o):
    r = o.get('resp', {}).get('result', [])
    return isinstance(r, list) and len(r) >= 1 and len(o['case']['req']['criteria']) >= 2


FAMILIES = {
    'utility': {
        'mc': 'MC_Utility',
        'mc_cfg': {'quick': 'MC_Utility_quick.cfg', 'thorough': 'MC_Utility_thorough.cfg'},
        'mode': 'decide',
        'trace': 'Trace_Decide',
        'drivers': [drv_utility],
    },
    'majority': {
        'mc': 'MC_Majority',
        'mc_cfg': {'quick': 'MC_Majority_quick.cfg', 'thorough': 'MC_Majority_thorough.cfg'},
        'mode': 'decide',
        'trace': 'Trace_Decide',
        'drivers': [drv_majority],
    },
}

def nt_majority(o):
    r = o.get('resp', {}).get('result', [])
    if not isinstance(r, list) or len(r) < 3:
        return False
    return any(e['evaluation'].get('comparedWith') and e['evaluation']['value'] == e['evaluation']['comparedAlternativeValue'] for e in r)


PROPS = {
    'C11': {'families': ['majority'], 'nontrivial': nt_majority,
            'rule': 'non-trivial = accepted majority request with >= 3 ranked alternatives and at least one drawn comparison; distinct by request'},
    'C01': {'families': ['utility', 'majority'], 'nontrivial': nt_ties,
            'rule': 'cases = TLC-enumerated instances + seeded random instances; non-trivial = accepted request whose result has >= 2 entries; distinct by request'},
    'C03': {'families': ['utility'], 'nontrivial': nt_formula,
            'rule': 'non-trivial = accepted utility request with >= 2 criteria (weights/capacities matter); distinct by request'},
    'C04': {'families': ['utility'], 'nontrivial': nt_ties,
            'rule': 'non-trivial = accepted utility request with >= 2 ranked alternatives; distinct by request'},
}
