"""Family registry: which TLA+ modules, harness mode and case drivers make up each family, and which
families decide which property.  Drivers generate cases TLC did not enumerate (larger random
instances, boundary grids, the repository's examples) in the same case format; they never judge."""
import json, os, itertools, copy
import pipeline
import service

UNIT = 256
Q = UNIT // 4

ALT = ['a%d' % i for i in range(1, 25)]
CRIT = ['c%d' % i for i in range(1, 7)]


def crit(j, ty='gain', rng=None):
    c = {'id': CRIT[j], 'type': ty}
    if rng is not None:
        c['valuesRange'] = {'min': rng[0], 'max': rng[1]}
    return c


def alts(tab, m):
    return [{'id': ALT[i], 'criteria': {CRIT[j]: tab[i][j] for j in range(m)}} for i in range(len(tab))]


def setkey(cs):
    return ','.join(sorted(cs))


def subsets(cs):
    out = []
    for r in range(1, len(cs) + 1):
        out.extend(itertools.combinations(cs, r))
    return out


def base_case(req, **kw):
    c = {'fam': 'drv', 'unit': UNIT, 'hook': True, 'via': 'http', 'expect': 'ok', 'failprop': 'C01', 'req': req}
    c.update(kw)
    return c


def perm_twins(rng, req, p, k=1):
    """the request plus k copies listing the alternatives in other orders"""
    out = [req]
    for _ in range(k):
        r = copy.deepcopy(req)
        rng.shuffle(r['knownAlternatives'])
        rng.shuffle(r['choseToMake'])
        out.append(r)
    return out


# ---------------------------------------------------------------- utility
def drv_utility(tier, rng):
    groups = drv_utility_main(tier, rng)
    # many alternatives (13 .. 20) with ties: order by value then id, whatever the size (helpers that change behaviour above a dozen)
    for t in range(12 if tier == 'quick' else 200):
        method = rng.choice(['weightedSum', 'owa', 'choquetIntegral'])
        n = rng.randint(13, 20)
        known = [{'id': ALT[i], 'criteria': {'c1': Q * rng.choice([0, 4, 8])}} for i in range(n)]
        rng.shuffle(known)
        req = {'preferenceFunction': method, 'knownAlternatives': known, 'choseToMake': [a['id'] for a in known],
               'criteria': [crit(0, 'gain')], 'methodParameters': {'weights': {'c1': UNIT}}, 'biases': []}
        groups.append([base_case(r, group={'id': 'x', 'rel': 'perm', 'p': 'C04'}) for r in perm_twins(rng, req, 'C04', 1)])
    return groups


def drv_utility_main(tier, rng):
    groups = []
    N = 150 if tier == 'quick' else 3000
    for t in range(N):
        method = rng.choice(['weightedSum', 'owa', 'choquetIntegral'])
        n = rng.randint(1, 8)
        m = rng.randint(1, 4 if method == 'choquetIntegral' else 5)
        tiey = rng.random() < 0.5
        vals = [-8, -3, 0, 1, 2, 6, 10, 16] if not tiey else [0, 4, 8]
        tab = [[Q * rng.choice(vals) for _ in range(m)] for _ in range(n)]
        types = ['gain' if method == 'choquetIntegral' or rng.random() < 0.6 else 'cost' for _ in range(m)]
        cs = CRIT[:m]
        if method == 'choquetIntegral':
            w = {setkey(s): Q * rng.choice([0, 1, 2, 3, 4]) for s in subsets(cs)}
        else:
            w = {c: Q * rng.choice([0, 1, 2, 3, 6]) for c in cs}
            if rng.random() < 0.25:       # any real weights: negative ones too, next to zeros
                w = {c: Q * rng.choice([-4, -2, -1, 0, 0, 1, 3]) for c in cs}
        known = alts(tab, m)
        nchose = rng.randint(1, n)
        chose = [a['id'] for a in rng.sample(known, nchose)]
        crits = [crit(j, types[j]) for j in range(m)]
        for c in crits:     # a criterion without `type` is a gain criterion
            if c['type'] == 'gain' and method != 'choquetIntegral' and rng.random() < 0.2:
                del c['type']
        if n >= 2 and rng.random() < 0.1:        # ids are case sensitive: 'a1' and 'A1' are two alternatives
            known[1]['id'] = known[0]['id'].upper()
            chose = [known[1]['id'] if x == ALT[1] else x for x in chose]
            if known[1]['id'] not in chose:
                chose.append(known[1]['id'])
        req = {'preferenceFunction': method, 'knownAlternatives': known, 'choseToMake': chose,
               'criteria': crits, 'methodParameters': {'weights': w}, 'biases': []}
        g = []
        # one case in six at a huge magnitude: every criterion value times 2^38 (utilities around 1e11 .. 1e13); the three
        # aggregates are linear in the values and powers of two scale exactly, so the harness divides the reported values
        # by 2^38 again and the specification judges the same instance
        huge = {'vscale': 2 ** 38} if rng.random() < 1 / 6 else {}
        for r in perm_twins(rng, req, 'C04', 2):
            g.append(base_case(r, exactprop='C03', group={'id': 'x', 'rel': 'perm', 'p': 'C04'}, **huge))
        groups.append(g)
    # Choquet near-ties around its 1e-5 tolerance, at magnitude 1 and 250: unit 2^20 resolves gaps of 8 (7.6e-6: tied)
    # and 16 or 32 (1.5e-5, 3e-5: distinct) units.  The capacity of the full set is 0 so that no product overflows.
    CU = 1 << 20
    for _ in range(40 if tier == 'quick' else 600):
        m = rng.randint(2, 3)
        cs = CRIT[:m]
        base = rng.choice([1, 250]) * CU
        known = [{'id': ALT[i], 'criteria': {c: base + rng.choice([0, 8, 16, 32]) for c in cs}} for i in range(rng.randint(1, 3))]
        w = {setkey(s_): (0 if len(s_) == m else rng.choice([0, CU // 2, CU])) for s_ in subsets(cs)}
        req = {'preferenceFunction': 'choquetIntegral', 'knownAlternatives': known, 'choseToMake': [a['id'] for a in known],
               'criteria': [crit(j, 'gain') for j in range(m)], 'methodParameters': {'weights': w}, 'biases': []}
        groups.append([base_case(req, unit=CU, eps=10, noC04=True)])
    # utilities exactly one or two rounding steps (1e-8) apart: distinct values, to be ordered by value, never tied.
    # unit 1e8 makes the steps visible to the specification (single criterion of weight 1: the utility is the value)
    FU = 100000000
    bases = [30000000, 100000000, 7]
    for n in (2, 3, 4):
        for ks in itertools.product((0, 1, 2), repeat=n):
            if tier == 'quick' and rng.random() < 0.5:
                continue
            method = rng.choice(['weightedSum', 'owa', 'choquetIntegral'])
            base = rng.choice(bases)
            known = [{'id': ALT[i], 'criteria': {'c1': base + ks[i]}} for i in range(n)]
            req = {'preferenceFunction': method, 'knownAlternatives': known, 'choseToMake': [a['id'] for a in known],
                   'criteria': [crit(0, 'gain')], 'methodParameters': {'weights': {'c1': FU}}, 'biases': []}
            g = [base_case(r, unit=FU, noC03=True, group={'id': 'x', 'rel': 'perm', 'p': 'C04'}) for r in perm_twins(rng, req, 'C04', 1)]
            groups.append(g)
    return groups



def shuffle_group(method, mp, p, n=4, bias=None):
    """24 requests that differ in the heuristic's seed only, seeded-random order asked for, identical alternatives;
    with `bias` a second criterion c2 (same value for everybody) is there and one bias changes the criteria first -
    the option must still be in force when the heuristic runs"""
    cs = ['c1', 'c2'] if bias else ['c1']
    known = [{'id': ALT[i], 'criteria': {c: UNIT for c in cs}} for i in range(n)]
    g = []
    for sd in range(24):
        m2 = copy.deepcopy(dict(mp, randomSeed=11 + 37 * sd, randomAlternativesOrdering=True))
        biases = []
        if bias:
            if 'weights' in m2:
                m2['weights']['c2'] = m2['weights']['c1']
            for t in m2.get('params', {}).get('thresholds', []):
                t['c2'] = t['c1']
            if bias == 'criteriaOmission':
                biases = [{'name': bias, 'props': {'ratio': UNIT // 2, 'min': 1, 'max': 1, 'ordering': 'weakest'}}]
            else:
                biases = [{'name': bias, 'props': {'randomSeed': 5, 'newCriterionImportance': UNIT // 2}}]
        req = {'preferenceFunction': method, 'knownAlternatives': copy.deepcopy(known), 'choseToMake': [a['id'] for a in known],
               'criteria': [crit(j, 'gain') for j in range(len(cs))], 'methodParameters': m2, 'biases': biases}
        g.append(base_case(req, refmax=4, pin=True, group={'id': 'x', 'rel': 'shuffle', 'p': p}))
    return g


# ---------------------------------------------------------------- majority
def heur_req(rng, method, n, m, vals, extra_known=0, types=None, unit=UNIT):
    tab = [[unit * rng.choice(vals) for _ in range(m)] for _ in range(n + extra_known)]
    types = types or ['gain' if rng.random() < 0.6 else 'cost' for _ in range(m)]
    known = alts(tab, m)
    chose = [a['id'] for a in known[:n]]
    rng.shuffle(chose)
    crits = [crit(j, types[j]) for j in range(m)]
    for c in crits:     # a criterion without `type` is a gain criterion
        if c['type'] == 'gain' and rng.random() < 0.2:
            del c['type']
    return {'preferenceFunction': method, 'knownAlternatives': known, 'choseToMake': chose,
            'criteria': crits, 'methodParameters': {}, 'biases': []}


def drv_majority(tier, rng):
    groups = []
    N = 300 if tier == 'quick' else 6000
    for t in range(N):
        n = rng.randint(1, 8)
        m = rng.randint(1, 4)
        extra = rng.choice([0, 0, 1, 2])
        # a third of the cases use decimal weights (unit 10: 0.1, 0.2, 0.3 ...): sums that are equal as numbers
        # but not bit-identical as floats must still count as draws (the 1e-6 tolerance of the comparison)
        dec = rng.random() < 0.33
        unit = 10 if dec else UNIT
        if dec:
            m = rng.randint(2, 5)
        req = heur_req(rng, 'majorityHeuristic', n, m, [0, 1, 2] if rng.random() < 0.6 else [0, 1, 2, 3, 5, 8], extra, unit=unit)
        mp = {'weights': {CRIT[j]: (rng.choice([1, 2, 3, 3, 4, 6, 7]) if dec else UNIT * rng.choice([1, 1, 2, 3])) for j in range(m)},
              'randomSeed': rng.randint(0, 10 ** 6)}
        if not dec and rng.random() < 0.15:    # big values one step apart are different values (the 1e-6 tolerance is absolute)
            big = UNIT * (1 << 20)
            for a in req['knownAlternatives']:
                for c_ in a['criteria']:
                    a['criteria'][c_] += big
        if not dec and rng.random() < 0.2:     # any weights: zero and negative ones count like the others
            for j in range(m):
                if rng.random() < 0.5:
                    mp['weights'][CRIT[j]] = UNIT * rng.choice([0, -1, -2, -3])
        pol = rng.choice(['allow', 'current', 'newer', 'random', None])
        if pol:
            mp['drawResolution'] = pol
        r = rng.random()
        if r < 0.3:
            mp['currentChoice'] = rng.choice(req['choseToMake'])
        elif r < 0.5 and extra:
            mp['currentChoice'] = req['knownAlternatives'][n]['id']
        if rng.random() < 0.3:
            mp['randomAlternativesOrdering'] = True
        req['methodParameters'] = mp
        groups.append([base_case(req, exactprop='C11', refmax=5, unit=unit)])
    # current choice first, also under a seeded order: identical alternatives draw every comparison, so with `current` the
    # first of the search order wins and with `newer` the last one - the ranking shows the search order itself
    for t in range(60 if tier == 'quick' else 1200):
        n = rng.randint(2, 4)
        extra = rng.choice([0, 1])
        req = heur_req(rng, 'majorityHeuristic', n, 2, [1], extra)
        mp = {'weights': {'c1': UNIT, 'c2': UNIT}, 'randomSeed': rng.randint(0, 10 ** 6), 'drawResolution': rng.choice(['current', 'newer', 'allow']),
              'randomAlternativesOrdering': rng.random() < 0.8}
        mp['currentChoice'] = req['knownAlternatives'][n]['id'] if extra and rng.random() < 0.5 else rng.choice(req['choseToMake'])
        req['methodParameters'] = mp
        groups.append([base_case(req, exactprop='C11', refmax=5)])
    # many alternatives (13 .. 20; helpers that behave differently above a dozen elements), fixed order, deterministic policies
    for t in range(12 if tier == 'quick' else 200):
        n = rng.randint(13, 20)
        m = rng.randint(1, 3)
        req = heur_req(rng, 'majorityHeuristic', n, m, [0, 1, 2], rng.choice([0, 1]))
        mp = {'weights': {CRIT[j]: UNIT * rng.choice([1, 1, 2, 3]) for j in range(m)}, 'randomSeed': rng.randint(0, 10 ** 6),
              'drawResolution': rng.choice(['allow', 'current', 'newer'])}
        if rng.random() < 0.5:
            mp['currentChoice'] = rng.choice(req['choseToMake'])
        req['methodParameters'] = mp
        groups.append([base_case(req, exactprop='C11', refmax=5)])
    groups.append(shuffle_group('majorityHeuristic', {'weights': {'c1': UNIT}, 'drawResolution': 'current'}, 'C11'))
    groups.append(shuffle_group('majorityHeuristic', {'weights': {'c1': UNIT}, 'drawResolution': 'current'}, 'C11', bias='criteriaOmission'))
    # targeted: scores that are equal as numbers but differ in the last float bit (0.1 + 0.2 vs 0.3, 0.1 + 0.2 + 0.4 vs 0.7),
    # on either side, under every draw policy
    for ws in ([1, 2, 3], [3, 1, 2], [1, 2, 4, 7], [7, 4, 2, 1], [2, 4, 6], [1, 6, 7]):
        m = len(ws)
        for pol in ('allow', 'current', 'newer', 'random'):
            for flip in (False, True):
                hi = [1] * (m - 1) + [0]
                lo = [0] * (m - 1) + [1]
                a, b = (hi, lo) if not flip else (lo, hi)
                known = [{'id': 'a1', 'criteria': {CRIT[j]: 10 * a[j] for j in range(m)}},
                         {'id': 'a2', 'criteria': {CRIT[j]: 10 * b[j] for j in range(m)}},
                         {'id': 'a3', 'criteria': {CRIT[j]: 0 for j in range(m)}}]
                req = {'preferenceFunction': 'majorityHeuristic', 'knownAlternatives': known, 'choseToMake': ['a1', 'a2', 'a3'],
                       'criteria': [crit(j, 'gain') for j in range(m)], 'biases': [],
                       'methodParameters': {'weights': {CRIT[j]: ws[j] for j in range(m)}, 'drawResolution': pol, 'randomSeed': 3}}
                groups.append([base_case(req, exactprop='C11', refmax=5, unit=10)])
    return groups


# ---------------------------------------------------------------- aspect elimination / satisfaction
def repeat_level(rng, ths):
    """a listed level may simply be repeated: it still counts as a level of its own (level indices are positions in the list)"""
    if ths and rng.random() < 0.3:
        i = rng.randrange(len(ths))
        ths = ths[:i + 1] + [dict(ths[i])] * rng.choice([1, 1, 2]) + ths[i + 1:]
    return ths


def level_source(rng, dir_, crits, types, vmax):
    """explicit thresholds (monotone per criterion) or a generated series with dyadic parameters"""
    r = rng.random()
    if r < 0.15:     # explicit levels need not be monotone: any list is walked in the given order
        ths = [{c: UNIT * rng.randint(0, vmax) for c in crits} for _ in range(rng.randint(1, 4))]
        return 'thresholds', {'thresholds': repeat_level(rng, ths)}
    if r < 0.45:
        k = rng.randint(0, 3)
        steps = sorted(rng.sample(range(0, vmax + 1), min(k, vmax + 1)))
        ths = []
        for s_ in (steps if dir_ == 'inc' else steps[::-1]):
            t = {}
            for c, ty in zip(crits, types):
                t[c] = UNIT * (s_ if ty == 'gain' else vmax - s_)
            ths.append(t)
        return 'thresholds', {'thresholds': repeat_level(rng, ths)}
    coef = rng.choice([Q, 2 * Q, 3 * Q])
    if dir_ == 'inc':
        fn = rng.choice(['idealMultipliedCoefficient', 'idealAdditiveCoefficient'])
        return fn, {'coefficient': coef, 'minValue': rng.choice([0, Q, 2 * Q]), 'maxValue': rng.choice([2 * Q, 3 * Q, 4 * Q])}
    fn = rng.choice(['idealMultipliedCoefficient', 'idealSubtractiveCoefficient'])
    return fn, {'coefficient': coef, 'minValue': rng.choice([Q, 2 * Q]), 'maxValue': rng.choice([2 * Q, 3 * Q, 4 * Q])}


def drv_aspect(tier, rng):
    groups = []
    N = 300 if tier == 'quick' else 6000
    for t in range(N):
        n = rng.randint(1, 7)
        m = rng.randint(1, 3)
        extra = rng.choice([0, 1])
        vmax = rng.choice([2, 4, 8])
        req = heur_req(rng, 'aspectEliminationHeuristic', n, m, list(range(0, vmax + 1)), extra)
        types = [c.get('type', 'gain') for c in req['criteria']]
        if rng.random() < 0.5:
            for c in req['criteria']:
                if rng.random() < 0.5:
                    c['valuesRange'] = {'min': 0, 'max': UNIT * vmax * 2}
        fn, params = level_source(rng, 'inc', CRIT[:m], types, vmax)
        if rng.random() < 0.15:      # a criterion on which everybody agrees (observed range of width 0): its threshold is that value
            j = rng.randrange(m)
            v = UNIT * rng.randint(1, vmax)
            for a in req['knownAlternatives']:
                a['criteria'][CRIT[j]] = v
            req['criteria'][j].pop('valuesRange', None)
            if rng.random() < 0.7:
                req['criteria'][j]['type'] = types[j] = 'cost'
            while fn == 'thresholds':
                fn, params = level_source(rng, 'inc', CRIT[:m], types, vmax)
        ws = rng.sample([1, 2, 3, 5], m) if rng.random() < 0.7 else [rng.choice([1, 2]) for _ in range(m)]
        if rng.random() < 0.25:      # distinct weights of any sign: the lightest criteria are still checked, last
            ws = rng.sample([-3, -1, 0, 1, 2, 4], m)
        mp = {'function': fn, 'params': params, 'weights': {CRIT[j]: UNIT * ws[j] for j in range(m)},
              'randomSeed': rng.randint(0, 10 ** 6)}
        if rng.random() < 0.25:
            mp['randomAlternativesOrdering'] = True
        req['methodParameters'] = mp
        groups.append([base_case(req, refmax=4)])
    # weights closer than 1e-6 are still distinct weights: the heavier criterion is checked first (unit 2^24)
    FU = 1 << 24
    for t in range(24 if tier == 'quick' else 400):
        W = FU * rng.choice([1, 2]) // 3
        order = rng.sample(['c1', 'c2', 'c3'], 3)
        ws = dict(zip(order, [W + 2, W + 1, W]))
        known = [{'id': ALT[i], 'criteria': {c: FU * rng.choice([0, 1, 2, 3]) for c in ('c1', 'c2', 'c3')}} for i in range(4)]
        req = {'preferenceFunction': 'aspectEliminationHeuristic', 'knownAlternatives': known, 'choseToMake': [a['id'] for a in known],
               'criteria': [crit(j, 'gain') for j in range(3)], 'biases': [],
               'methodParameters': {'weights': ws, 'function': 'thresholds', 'params': {'thresholds': [{c: FU * (4 if t % 2 else rng.choice([1, 2])) for c in ws}, {c: 3 * FU for c in ws}]},
                                    'randomSeed': rng.randint(0, 50)}}     # (the recorded seed is a number of the unit too)
        groups.append([base_case(req, refmax=4, unit=FU, pin=True)])
    # all four alternatives fail the first check: the ranking is the reverse of the walk order
    # parameters outside the documented domain are rejected whatever the size of the decision (one alternative too)
    for t in range(12 if tier == 'quick' else 120):
        n = rng.choice([1, 1, 2, 3])
        m = rng.randint(1, 2)
        req = heur_req(rng, 'aspectEliminationHeuristic', n, m, [0, 1, 2, 4], rng.choice([0, 1]))
        params = {'coefficient': 2 * Q, 'minValue': Q, 'maxValue': 3 * Q}
        bad = rng.choice([('coefficient', 0), ('coefficient', 6 * Q), ('coefficient', -Q), ('minValue', -Q), ('maxValue', 5 * Q), ('minValue', 5 * Q)])
        params[bad[0]] = bad[1]
        mp = {'function': rng.choice(['idealMultipliedCoefficient', 'idealAdditiveCoefficient']), 'params': params, 'randomSeed': 3}
        if 'aspectEliminationHeuristic' == 'aspectEliminationHeuristic':
            mp['weights'] = {CRIT[j]: UNIT * (j + 1) for j in range(m)}
        req['methodParameters'] = mp
        groups.append([base_case(req, expect='reject', failprop='C14', refmax=4)])
    groups.append(shuffle_group('aspectEliminationHeuristic', {'function': 'thresholds', 'params': {'thresholds': [{'c1': 2 * UNIT}]}, 'weights': {'c1': UNIT}}, 'C12'))
    groups.append(shuffle_group('aspectEliminationHeuristic', {'function': 'thresholds', 'params': {'thresholds': [{'c1': 2 * UNIT}]}, 'weights': {'c1': UNIT}}, 'C12', bias='criteriaOmission'))
    return groups


def drv_satisfaction(tier, rng):
    groups = []
    N = 300 if tier == 'quick' else 6000
    for t in range(N):
        n = rng.randint(1, 7)
        m = rng.randint(1, 3)
        extra = rng.choice([0, 1, 2])
        vmax = rng.choice([2, 4, 8])
        req = heur_req(rng, 'satisfactionHeuristic', n, m, list(range(0, vmax + 1)), extra)
        types = [c.get('type', 'gain') for c in req['criteria']]
        if rng.random() < 0.5:
            for c in req['criteria']:
                if rng.random() < 0.5:
                    c['valuesRange'] = {'min': 0, 'max': UNIT * vmax * 2}
        fn, params = level_source(rng, 'dec', CRIT[:m], types, vmax)
        if rng.random() < 0.15:      # a criterion on which everybody agrees (observed range of width 0): its threshold is that value
            j = rng.randrange(m)
            v = UNIT * rng.randint(1, vmax)
            for a in req['knownAlternatives']:
                a['criteria'][CRIT[j]] = v
            req['criteria'][j].pop('valuesRange', None)
            if rng.random() < 0.7:
                req['criteria'][j]['type'] = types[j] = 'cost'
            while fn == 'thresholds':
                fn, params = level_source(rng, 'dec', CRIT[:m], types, vmax)
        mp = {'function': fn, 'params': params, 'randomSeed': rng.randint(0, 10 ** 6)}
        r = rng.random()
        if r < 0.35:
            mp['currentChoice'] = rng.choice(req['choseToMake'])
        elif r < 0.5 and extra:
            mp['currentChoice'] = req['knownAlternatives'][n]['id']
        if rng.random() < 0.25:
            mp['randomAlternativesOrdering'] = True
        req['methodParameters'] = mp
        groups.append([base_case(req, refmax=5)])
    # current choice first, also under a seeded order: alternatives that all meet the first level are accepted in search
    # order, so the ranking shows the order itself (current choice considered, or known but not considered)
    for t in range(60 if tier == 'quick' else 1200):
        n = rng.randint(2, 4)
        extra = rng.choice([0, 1])
        req = heur_req(rng, 'satisfactionHeuristic', n, 1, [2, 3], extra, types=['gain'])
        mp = {'function': 'thresholds', 'params': {'thresholds': [{'c1': UNIT * rng.choice([1, 2])}, {'c1': 0}]}, 'randomSeed': rng.randint(0, 10 ** 6),
              'randomAlternativesOrdering': rng.random() < 0.8}
        mp['currentChoice'] = req['knownAlternatives'][n]['id'] if extra and rng.random() < 0.5 else rng.choice(req['choseToMake'])
        req['methodParameters'] = mp
        groups.append([base_case(req, refmax=5)])
    # all four alternatives meet the first level: the ranking is the search order
    # parameters outside the documented domain are rejected whatever the size of the decision (one alternative too)
    for t in range(12 if tier == 'quick' else 120):
        n = rng.choice([1, 1, 2, 3])
        m = rng.randint(1, 2)
        req = heur_req(rng, 'satisfactionHeuristic', n, m, [0, 1, 2, 4], rng.choice([0, 1]))
        params = {'coefficient': 2 * Q, 'minValue': Q, 'maxValue': 3 * Q}
        bad = rng.choice([('coefficient', 0), ('coefficient', 6 * Q), ('coefficient', -Q), ('minValue', -Q), ('maxValue', 5 * Q), ('minValue', 5 * Q)])
        params[bad[0]] = bad[1]
        mp = {'function': rng.choice(['idealMultipliedCoefficient', 'idealSubtractiveCoefficient']), 'params': params, 'randomSeed': 3}
        if 'satisfactionHeuristic' == 'aspectEliminationHeuristic':
            mp['weights'] = {CRIT[j]: UNIT * (j + 1) for j in range(m)}
        req['methodParameters'] = mp
        groups.append([base_case(req, expect='reject', failprop='C14', refmax=4)])
    groups.append(shuffle_group('satisfactionHeuristic', {'function': 'thresholds', 'params': {'thresholds': [{'c1': 0}]}}, 'C13'))
    groups.append(shuffle_group('satisfactionHeuristic', {'function': 'thresholds', 'params': {'thresholds': [{'c1': 0}]}}, 'C13', bias='criteriaOmission'))
    return groups


# ---------------------------------------------------------------- electre end to end
DIST_FUNS = [
    # (request a, request b, rational a, rational b); None = default function of the method
    (None, None, [-3, 20], [3, 10]),
    (0, UNIT // 8, [0, 1], [1, 8]),
    (-(UNIT // 8), UNIT // 4, [-1, 8], [1, 4]),
    (0, 0, [0, 1], [0, 1]),
]


def electre_req(rng, n, m, vals, extra=0, veto_heavy=False):
    req = heur_req(rng, 'electreIII', n, m, vals, extra)
    ec = {}
    ks = rng.choice([[1] * m, [rng.choice([1, 2, 4]) for _ in range(m)], [rng.choice([1, 3, 5]) for _ in range(m)]])
    for j in range(m):
        e = {'k': UNIT * ks[j]}
        cfg = rng.choice(['none', 'q', 'qp', 'p', 'qpv', 'pv'])
        q = rng.choice([1, 2])
        p = q + rng.choice([1, 2, 4])
        v = p + rng.choice([2, 4])
        if veto_heavy:      # several criteria whose veto is partially active on the same pair (discordance strictly inside (0,1))
            cfg = rng.choice(['qpv', 'pv', 'qpv', 'qp'])
            q, p = 1, rng.choice([2, 3])
            v = p + rng.choice([4, 8])
        if 'q' in cfg:
            e['q'] = {'b': UNIT * q}
        if 'p' in cfg:
            e['p'] = {'b': UNIT * p}
        if 'v' in cfg:
            e['v'] = {'b': UNIT * v}
        ec[CRIT[j]] = e
    mp = {'electreCriteria': ec}
    f = rng.choice(DIST_FUNS)
    if f[0] is not None:
        mp['electreDistillation'] = {'a': f[0], 'b': f[1]}
    req['methodParameters'] = mp
    return req, f


def scaled(req, num, den):
    r = copy.deepcopy(req)
    for c, e in r['methodParameters']['electreCriteria'].items():
        e['k'] = e['k'] * num // den
    return r


def scaled_pow2(req, e2):
    """every weight k times 2^e2 (any power of two, also far from 1: k around 1e-7 or 1e6)"""
    r = copy.deepcopy(req)
    for c, e in r['methodParameters']['electreCriteria'].items():
        e['k'] = {'n': e['k'], 'd': UNIT, 'e': e2}
    return r


def vscaled(req, e2):
    """every criterion value and every constant threshold times 2^e2: differences, thresholds and hence all partial
    indices keep their ratios, so every index is unchanged (ELECTRE III with constant thresholds has no absolute scale)"""
    r = copy.deepcopy(req)
    for a in r['knownAlternatives']:
        for c in a['criteria']:
            a['criteria'][c] = {'n': a['criteria'][c], 'd': UNIT, 'e': e2}
    for c, e in r['methodParameters']['electreCriteria'].items():
        for t in ('q', 'p', 'v'):
            if t in e:
                e[t]['b'] = {'n': e[t]['b'], 'd': UNIT, 'e': e2}
    return r


def drv_electre(tier, rng):
    groups = []
    N = 250 if tier == 'quick' else 5000
    for t in range(N):
        n = rng.randint(1, 5)
        m = rng.randint(1, 3)
        tiey = rng.random() < 0.5
        heavy = rng.random() < 0.4
        if heavy:
            n, m, tiey = rng.randint(2, 4), rng.randint(3, 4), False
        req, f = electre_req(rng, n, m, [0, 1, 2, 3] if tiey else list(range(0, 10)) if heavy else [0, 1, 2, 3, 4, 6, 9], rng.choice([0, 0, 1]), veto_heavy=heavy)
        if tiey and n >= 2 and rng.random() < 0.5:   # identical / dominated rows
            ka = req['knownAlternatives']
            ka[1]['criteria'] = dict(ka[0]['criteria'])
        g = []
        if rng.random() < 0.15:     # an entry for a criterion that is not declared is allowed input and takes no part
            req['methodParameters']['electreCriteria']['zz_undeclared'] = {'k': UNIT * rng.choice([1, 4, 20])}
        variants = perm_twins(rng, req, 'C06', 1) + [scaled(req, 2, 1), scaled(req, 1, 4), scaled_pow2(req, rng.choice([-30, -24, -20, 10]))]
        for r in variants:
            g.append(base_case(r, sa=f[2], sb=f[3], failprop='C05', group={'id': 'x', 'rel': 'perm', 'p': 'C06'}))
        # the same instance on another scale of the criteria (values and thresholds x 2^-30 / x 2^20): relation only
        g.append(base_case(vscaled(req, rng.choice([-30, -30, 20])), sa=f[2], sb=f[3], failprop='C05', methodref=False,
                           group={'id': 'x', 'rel': 'perm', 'p': 'C05'}))
        groups.append(g)
    return groups


def drv_electre_near(tier, rng):
    """listing-order twins (C06) on values that agree to many decimals without being identical: a copy of an alternative is
    nudged by k x 2^-44 on a criterion without thresholds (any difference is a strict preference there).  The nudges are
    below the resolution of the case integers, so only the relation between the twins is judged (methodref off)."""
    groups = []
    for t in range(60 if tier == 'quick' else 1200):
        m = rng.randint(2, 3)
        n = rng.randint(2, 3)
        req, f = electre_req(rng, n, m, [1, 2, 3, 5, 6], 0)
        ec = req['methodParameters']['electreCriteria']
        free = rng.choice(req['criteria'])['id']
        ec[free] = {'k': ec[free]['k']}                # no q / p / v on this criterion
        ka = req['knownAlternatives']
        src = rng.choice(ka)
        twin = {'id': 'z0', 'criteria': dict(src['criteria'])}
        ka.append(twin)
        req['choseToMake'].append('z0')
        third = {'id': 'z1', 'criteria': dict(src['criteria'])}
        other = rng.choice([c['id'] for c in req['criteria'] if c['id'] != free])
        third['criteria'][other] += UNIT * rng.choice([-1, 1])
        ka.append(third)
        req['choseToMake'].append('z1')
        nud = [{'alt': 'z0', 'crit': free, 'k': rng.choice([1, 2, -1]), 'e': 44}, {'alt': 'z1', 'crit': free, 'k': rng.choice([1, 2, -1]), 'e': 44}]
        g = [base_case(r, sa=f[2], sb=f[3], failprop='C05', methodref=False, nudge=nud, group={'id': 'x', 'rel': 'perm', 'p': 'C06'})
             for r in perm_twins(rng, req, 'C06', 3)]
        groups.append(g)
    return groups


def drv_electre_many(tier, rng):
    """listing-order twins with many alternatives (70: beyond any word-sized bookkeeping) on a coarse grid, so that tie groups
    that are strict subsets of the remaining alternatives occur at every level; only the relation between the twins is judged"""
    groups = []
    for t in range(2 if tier == 'quick' else 12):
        m = 2
        req, f = electre_req(rng, 3, m, [0, 1, 2, 3], 0)
        cs = [c['id'] for c in req['criteria']]
        req['knownAlternatives'] = [{'id': 'm%02d' % i, 'criteria': {c: UNIT * rng.choice([0, 1, 2, 3]) for c in cs}} for i in range(70)]
        req['choseToMake'] = [a['id'] for a in req['knownAlternatives']]
        g = [base_case(r, sa=f[2], sb=f[3], failprop='C05', methodref=False, hook=False, pin=True, group={'id': 'x', 'rel': 'perm', 'p': 'C06'})
             for r in perm_twins(rng, req, 'C06', 2)]
        groups.append(g)
    return groups


def drv_electre_dom(tier, rng):
    """dominated neighbours (C06): a few alternatives on a 0..10 grid with veto-carrying criteria whose differences often
    equal a threshold exactly, plus 'shadows' - copies of an alternative made slightly worse on some criteria - so that
    every instance holds dominated pairs whose members differ by one or two steps next to further alternatives.  The
    family is screened: all cases run through the real code, TLC judges the suspicious ones and a sample."""
    groups = []
    for t in range(50000):       # one chunk
        m = rng.randint(2, 3)
        nb = rng.randint(2, 4)
        req, f = electre_req(rng, nb, m, list(range(0, 11)), 0, veto_heavy=rng.random() < 0.5)
        for j, c in enumerate(req['criteria']):
            e = req['methodParameters']['electreCriteria'][c['id']]
            if 'v' not in e and rng.random() < 0.7:
                pb = e.get('p', e.get('q', {'b': 0}))['b'] // UNIT
                if 'p' not in e:
                    e['p'] = {'b': UNIT * (pb + 1)}
                    pb += 1
                e['v'] = {'b': UNIT * (pb + rng.choice([2, 3, 4, 6]))}
        ka = req['knownAlternatives']
        for sidx in range(rng.randint(1, 2)):
            src = rng.choice(ka[:nb])
            sh = {'id': 'z%d' % sidx, 'criteria': dict(src['criteria'])}
            for c in req['criteria']:
                if rng.random() < 0.6:
                    d = UNIT * rng.choice([1, 1, 2])
                    sh['criteria'][c['id']] += d if c.get('type', 'gain') == 'cost' else -d
            ka.append(sh)
            req['choseToMake'].append(sh['id'])
        rng.shuffle(req['choseToMake'])
        groups.append([base_case(req, sa=f[2], sb=f[3], failprop='C05', screen='c06', via='lib')])
    return groups


# ---------------------------------------------------------------- bias pipeline
def pcase(req, **kw):
    c = {'fam': 'pipeline', 'unit': pipeline.PU, 'hook': True, 'probe': True, 'bias': True, 'via': 'lib',
         'expect': 'ok', 'failprop': 'C07', 'req': req}
    c.update(kw)
    exact = all(b['name'] in ('criteriaOmission', 'preferenceReversal') for b in req.get('biases', []))
    c.setdefault('methodref', exact)
    return c


def drv_pipeline(tier, rng):
    groups = []
    # catalogue: every method x every single bias and every ordered pair of biases
    seqs = [[b] for b in pipeline.BIASES] + [[a, b] for a in pipeline.BIASES for b in pipeline.BIASES]
    reps = 1 if tier == 'quick' else 6
    for _ in range(reps):
        for mth in pipeline.METHODS:
            for sq in seqs:
                groups.append([pcase(pipeline.pipeline_case(rng, mth, list(sq)))])
    # listing-order twins through biases whose effect is defined per alternative id (C04): concealment hands out its seeded
    # values in id order, omission / reversal / mixing do not look at the alternatives' order at all
    for _ in range(40 if tier == 'quick' else 800):
        mth = rng.choice(['weightedSum', 'owa', 'choquetIntegral'])
        sq = rng.choice([['criteriaConcealment'], ['criteriaConcealment'], ['criteriaMixing'], ['criteriaOmission', 'criteriaConcealment'],
                         ['preferenceReversal', 'criteriaConcealment'], ['criteriaConcealment', 'criteriaMixing']])
        req = pipeline.pipeline_case(rng, mth, list(sq), n=rng.randint(3, 5))
        groups.append([pcase(r, probe=False, pin=True, group={'id': 'x', 'rel': 'perm', 'p': 'C04'}) for r in perm_twins(rng, req, 'C04', 2)])
    # the same criterion-adding bias three and four times in one request: generated ids must stay unique (C07, C18)
    for _ in range(reps):
        for mth in pipeline.METHODS:
            for name, k in (('criteriaConcealment', 3), ('criteriaConcealment', 4), ('criteriaMixing', 3), ('criteriaMixing', 4), ('anchoring', 3)):
                req = pipeline.pipeline_case(rng, mth, [name] * k, m=2 if name == 'criteriaMixing' else None)
                for b in req['biases']:
                    if b['name'] == 'anchoring':
                        b['props']['applier'] = {'function': 'newCriterion', 'params': {'randomSeed': rng.randint(0, 999)}}
                        b['props']['referencePoints'] = {'function': 'ideal'}
                # a request made of one kind of criterion-adding bias only: a rejection is that bias failing to add its criterion
                groups.append([pcase(req, failprop2='C19' if name == 'anchoring' else 'C18')])
    N = 300 if tier == 'quick' else 6000
    for _ in range(N):
        groups.append([pcase(pipeline.pipeline_case(rng))])
    # fatigue on many values at once (8 alternatives x 6 criteria, no bounding): both blur directions must occur (C17)
    for _ in range(6 if tier == 'quick' else 60):
        req = pipeline.gen_data(rng, rng.choice(pipeline.METHODS), n=5, m=4, extra=5, positive=True)
        for a in req['knownAlternatives']:
            for c in a['criteria']:
                a['criteria'][c] = pipeline.PU * rng.choice([1, 2, 3, 5, 8])
        req['biases'] = [{'name': 'fatigue', 'props': {'function': 'const', 'params': {'value': rng.choice([pipeline.PU // 4, pipeline.PU // 2, pipeline.PU])},
                                                       'randomSeed': rng.randint(0, 999)}}]
        groups.append([pcase(req)])
    # probability orderings over many seeds (C15): importance 1 : 4 : 16, one criterion omitted
    for ordering in ('weakestByProbability', 'strongestByProbability'):
        base = pipeline.gen_data(rng, 'majorityHeuristic', n=2, m=3, extra=0, declared=False)
        base['criteria'] = [{'id': c, 'type': 'gain'} for c in ('c1', 'c2', 'c3')]
        base['methodParameters'] = {'weights': {'c1': pipeline.PU, 'c2': 4 * pipeline.PU, 'c3': 16 * pipeline.PU}, 'drawResolution': 'allow'}
        g = []
        for sd in range(300 if tier == 'quick' else 3000):
            r = copy.deepcopy(base)
            r['biases'] = [{'name': 'criteriaOmission', 'props': {'ratio': pipeline.PU // 2, 'max': 1, 'ordering': ordering, 'randomSeed': 17 + sd * 101}}]
            g.append(pcase(r, probe=False, methodref=False, pin=True, group={'id': 'x', 'rel': 'c15freq', 'p': 'C15', 'ordering': ordering}))
        groups.append(g)
    # ... and the second pick follows the same rule among the remaining criteria (two omitted)
    for ordering in ('weakestByProbability', 'strongestByProbability'):
        base = pipeline.gen_data(rng, 'majorityHeuristic', n=2, m=3, extra=0, declared=False)
        base['criteria'] = [{'id': c, 'type': 'gain'} for c in ('c1', 'c2', 'c3')]
        base['methodParameters'] = {'weights': {'c1': pipeline.PU, 'c2': 4 * pipeline.PU, 'c3': 16 * pipeline.PU}, 'drawResolution': 'allow'}
        g = []
        for sd in range(300 if tier == 'quick' else 3000):
            r = copy.deepcopy(base)
            r['biases'] = [{'name': 'criteriaOmission', 'props': {'ratio': pipeline.PU, 'min': 2, 'max': 2, 'ordering': ordering, 'randomSeed': 29 + sd * 103}}]
            g.append(pcase(r, probe=False, methodref=False, pin=True, group={'id': 'x', 'rel': 'c15freq2', 'p': 'C15', 'ordering': ordering}))
        groups.append(g)
    # ... for other numbers of criteria too: two criteria (1 : 4, first pick) and four criteria (1 : 4 : 16 : 64, second pick)
    for ordering in ('weakestByProbability', 'strongestByProbability'):
        for m in (2, 4):
            cs = ['c%d' % (i + 1) for i in range(m)]
            base = pipeline.gen_data(rng, 'majorityHeuristic', n=2, m=m, extra=0, declared=False)
            base['criteria'] = [{'id': c, 'type': 'gain'} for c in cs]
            base['methodParameters'] = {'weights': {c: (4 ** i) * pipeline.PU for i, c in enumerate(cs)}, 'drawResolution': 'allow'}
            g = []
            for sd in range(300 if tier == 'quick' else 3000):
                r = copy.deepcopy(base)
                if m == 2:
                    r['biases'] = [{'name': 'criteriaOmission', 'props': {'ratio': pipeline.PU // 2, 'min': 1, 'max': 1, 'ordering': ordering, 'randomSeed': 31 + sd * 107}}]
                    grp = {'id': 'x', 'rel': 'c15freqM', 'p': 'C15', 'ordering': ordering, 'crits': cs}
                else:
                    r['biases'] = [{'name': 'criteriaOmission', 'props': {'ratio': pipeline.PU // 2, 'min': 2, 'max': 2, 'ordering': ordering, 'randomSeed': 37 + sd * 109}}]
                    weak = ordering == 'weakestByProbability'
                    grp = {'id': 'x', 'rel': 'c15freq2M', 'p': 'C15', 'ordering': ordering,
                           'first': 'c1' if weak else 'c4', 'second': 'c2' if weak else 'c3', 'third': 'c3' if weak else 'c2'}
                g.append(pcase(r, probe=False, methodref=False, pin=True, group=grp))
            groups.append(g)
    # seeded reference-criterion strategies over many seeds (C18): importance 1 : 4 : 16, ranges 1 : 2 : 4 identify the reference
    for strategy in ('randomUniform', 'randomWeighted'):
        P = pipeline.PU
        base = {'preferenceFunction': 'majorityHeuristic',
                'knownAlternatives': [{'id': 'a1', 'criteria': {'c1': 0, 'c2': 0, 'c3': 0}}, {'id': 'a2', 'criteria': {'c1': P, 'c2': 2 * P, 'c3': 4 * P}}],
                'choseToMake': ['a1', 'a2'], 'criteria': [{'id': c, 'type': 'gain'} for c in ('c1', 'c2', 'c3')],
                'methodParameters': {'weights': {'c1': P, 'c2': 4 * P, 'c3': 16 * P}, 'drawResolution': 'allow'}}
        g = []
        for sd in range(300 if tier == 'quick' else 3000):
            r = copy.deepcopy(base)
            r['biases'] = [{'name': 'criteriaConcealment', 'props': {'randomSeed': 5, 'referenceCriterionType': strategy,
                                                                     'newCriterionRandomSeed': {'int': 23 + sd * 97}}}]
            g.append(pcase(r, probe=False, methodref=False, pin=True, group={'id': 'x', 'rel': 'c18freq', 'p': 'C18', 'strategy': strategy}))
        groups.append(g)
    # importances closer than 1e-6 are still different importances (C15 / C16 orderings): unit 2^24, weights W+2, W, W+1
    FU = 1 << 24
    for mth in ('majorityHeuristic', 'aspectEliminationHeuristic', 'electreIII'):
        for ordering in ('weakest', 'strongest'):
            for bias in ('criteriaOmission', 'preferenceReversal'):
                W = FU * rng.choice([1, 2]) // 3
                ws = {'c1': W + 2, 'c2': W, 'c3': W + 1}
                known = [{'id': ALT[i], 'criteria': {c: FU * rng.choice([1, 2, 3, 4]) for c in ws}} for i in range(3)]
                if mth == 'majorityHeuristic':
                    mp = {'weights': ws, 'drawResolution': 'allow'}
                elif mth == 'aspectEliminationHeuristic':
                    mp = {'weights': ws, 'function': 'thresholds', 'params': {'thresholds': [{c: 2 * FU for c in ws}]}}
                else:
                    mp = {'electreCriteria': {c: {'k': w} for c, w in ws.items()}, 'electreDistillation': {'a': -(FU // 8), 'b': FU // 4}}
                req = {'preferenceFunction': mth, 'knownAlternatives': known, 'choseToMake': [a['id'] for a in known],
                       'criteria': [{'id': c, 'type': 'gain'} for c in ('c1', 'c2', 'c3')], 'methodParameters': mp,
                       'biases': [{'name': bias, 'props': {'ratio': FU // 2, 'max': 1, 'min': 1, 'ordering': ordering}}]}
                groups.append([pcase(req, unit=FU, probe=False, methodref=False, pin=True, notwin=True)])
    # single omissions that do remove something (second pass compares with the reduced request, C15)
    for mth in pipeline.METHODS:
        for _ in range(10 if tier == 'quick' else 150):
            req = pipeline.pipeline_case(rng, mth, ['criteriaOmission'], m=rng.randint(2, 4))
            pr = req['biases'][0]['props']
            pr['min'] = 1
            pr['max'] = max(1, pr.get('max', 1))
            if pr['max'] >= len(req['criteria']):
                pr['max'] = len(req['criteria']) - 1
            groups.append([pcase(req)])
    return groups


# ---------------------------------------------------------------- C08 relations between runs
def cheap_bias(rng, kind, m):
    P = pipeline.PU
    if kind == 'criteriaOmission':
        return {'name': kind, 'props': {'ratio': rng.choice([P // 4, P // 2]), 'max': 1, 'ordering': rng.choice(['weakest', 'strongest'])}}
    if kind == 'preferenceReversal':
        return {'name': kind, 'props': {'ratio': rng.choice([P // 4, P // 2, P]), 'ordering': rng.choice(['weakest', 'strongest'])}}
    return {'name': 'fatigue', 'props': {'function': 'const', 'params': {'value': rng.choice([0, P // 4])}, 'randomSeed': rng.randint(0, 99)}}


def drv_c08(tier, rng):
    P = pipeline.PU
    groups = []
    N = 60 if tier == 'quick' else 1200
    kinds = ['criteriaOmission', 'preferenceReversal', 'fatigue']
    probs = [0, P // 4, P // 2, 3 * P // 4, P, None]
    for _ in range(N):
        req = pipeline.gen_data(rng, rng.choice(pipeline.METHODS), m=rng.randint(3, 4))
        m = len(req['criteria'])
        L = rng.randint(1, 4)
        base = []
        for _i in range(L):
            b = cheap_bias(rng, rng.choice(kinds), m)
            pr = rng.choice(probs)
            if pr is not None:
                b['applyProbability'] = pr
            base.append(b)
        # seed 0 and a seed left out (= 0) are seeds like any other: the draws depend on the seed only
        seeds = [rng.choice([0, None, rng.randint(0, 10 ** 6), rng.randint(0, 10 ** 6), rng.randint(0, 10 ** 6)])]
        g = []

        def member(biases, same=False):
            r = copy.deepcopy(req)
            r['biases'] = biases
            if seeds[0] is not None:
                r['biasApplyRandomSeed'] = seeds[0]
            grp = {'id': 'x', 'rel': 'c08', 'p': 'C08'}
            if same:
                grp['sameAsFirst'] = True
            g.append(pcase(r, via='http', probe=False, failprop='C08', methodref=False, group=grp))
        member(copy.deepcopy(base))
        # others changed: different kinds/props at every position, own probabilities kept
        other = []
        for b in base:
            nb = cheap_bias(rng, rng.choice(kinds), m)
            if 'applyProbability' in b:
                nb['applyProbability'] = b['applyProbability']
            other.append(nb)
        member(other)
        # probabilities raised / lowered
        for delta in (P // 4, -(P // 4)):
            mod = copy.deepcopy(base)
            for b in mod:
                b['applyProbability'] = min(P, max(0, b.get('applyProbability', P) + delta))
            member(mod)
        # disabled entries (one with an unknown name) inserted: equivalent to leaving them out
        withdis = []
        for b in copy.deepcopy(base):
            if rng.random() < 0.6:
                d = cheap_bias(rng, rng.choice(kinds), m)
                d['disabled'] = True
                if rng.random() < 0.4:
                    d['name'] = 'noSuchBias'
                withdis.append(d)
            withdis.append(b)
        withdis.append({'name': 'alsoUnknown', 'disabled': True})
        member(withdis, same=True)
        groups.append(g)
    # frequency: many seeds, three always-harmless biases with probability 1/4, 1/2, 3/4
    nseeds = 600 if tier == 'quick' else 4000
    req = pipeline.gen_data(rng, 'weightedSum', n=2, m=2, extra=0)
    g = []
    for sd in range(nseeds):
        r = copy.deepcopy(req)
        r['biasApplyRandomSeed'] = 1000 + sd * 7919
        r['biases'] = [{'name': 'fatigue', 'applyProbability': k * P // 4,
                        'props': {'function': 'const', 'params': {'value': 0}, 'randomSeed': 1}} for k in (1, 2, 3)]
        g.append(pcase(r, via='http', probe=False, failprop='C08', methodref=False, digestOnly=True, bias=False,
                       group={'id': 'x', 'rel': 'c08freq', 'p': 'C08'}))
    groups.append(g)
    return groups


# ---------------------------------------------------------------- C09: statelessness
def drv_c09(tier, rng):
    """fragile configurations (current choice among the considered, everything considered, reversal with
    nothing unconsidered, fatigue before a heuristic), each through JSON-decoded and exact-capacity inputs, plus
    histories: the same request again after other requests must be answered identically"""
    P = pipeline.PU
    groups = []
    # default-reliant request / the same component with every option set explicitly / default-reliant request again:
    # options decoded into shared templates or prototypes would leak from the explicit request into the next one
    EXPLICIT = {
        'criteriaOmission': ({'ratio': P // 2}, {'ratio': P // 4, 'min': 1, 'max': 2, 'ordering': 'strongest', 'randomSeed': 9}),
        'preferenceReversal': ({'ratio': P // 2}, {'ratio': P, 'min': 1, 'max': 3, 'ordering': 'random', 'randomSeed': 9}),
        'fatigue': ({'function': 'expFromZero', 'params': {'alpha': P // 10}, 'randomSeed': 4},
                    {'function': 'expFromZero', 'params': {'alpha': P // 10, 'multiplier': 2 * P, 'queryNumber': 7}, 'randomSeed': 5,
                     'allowedValuesRangeScaling': P // 2, 'disallowNegativeValues': True}),
        'criteriaConcealment': ({'randomSeed': 4}, {'randomSeed': 5, 'newCriterionScaling': 2 * P, 'referenceCriterionType': 'importanceRatio',
                                                    'newCriterionImportance': P, 'allowedValuesRangeScaling': P // 2, 'disallowNegativeValues': True}),
        'criteriaMixing': ({'randomSeed': 4}, {'randomSeed': 5, 'mixingRatio': P // 4, 'referenceCriterionType': 'importanceRatio', 'newCriterionImportance': P}),
    }
    for mth in (pipeline.METHODS if tier == 'thorough' else rng.sample(pipeline.METHODS, 3)):
        base = pipeline.gen_data(rng, mth, n=3, m=4, extra=1)
        for nm, (dflt, expl) in EXPLICIT.items():
            a = copy.deepcopy(base)
            a['biases'] = [{'name': nm, 'props': copy.deepcopy(dflt)}]
            b = copy.deepcopy(base)
            b['biases'] = [{'name': nm, 'props': copy.deepcopy(expl)}]
            groups.append([pcase(x, via='lib', failprop='C09', group={'id': 'x', 'rel': 'samereq', 'p': 'C09'}) for x in (a, b, copy.deepcopy(a))])
        for inl in (True, False):       # anchoring: minimal applier parameters vs everything set
            a = copy.deepcopy(base)
            ab = pipeline.gen_bias(rng, 'anchoring', a, 4)
            ab['props']['applier'] = {'function': 'inline' if inl else 'newCriterion', 'params': {}}
            a['biases'] = [ab]
            b = copy.deepcopy(a)
            b['biases'][0]['props']['applier']['params'] = ({'applyOnNotConsidered': True, 'allowedValuesRangeScaling': P // 2, 'disallowNegativeValues': True} if inl else
                                                             {'randomSeed': 8, 'referenceCriterionType': 'importanceRatio', 'newCriterionImportance': P,
                                                              'allowedValuesRangeScaling': P // 2, 'disallowNegativeValues': True})
            groups.append([pcase(x, via='lib', failprop='C09', group={'id': 'x', 'rel': 'samereq', 'p': 'C09'}) for x in (a, b, copy.deepcopy(a))])
    # (these come first: a component polluted by an error path stays polluted for the rest of the process, so only the
    # first sandwich of a kind can show the difference)
    # error paths: every kind of rejected request, sandwiched between two copies of a valid request that exercises the
    # same component while relying on its defaults (no ordering, no reference type, no bounding ...)
    DEFAULTS = {'criteriaOmission': {'ratio': P // 2}, 'preferenceReversal': {'ratio': P // 2},
                'fatigue': {'function': 'const', 'params': {'value': P // 4}, 'randomSeed': 4},
                'criteriaConcealment': {'randomSeed': 4}, 'criteriaMixing': {'randomSeed': 4}}
    for mth in (pipeline.METHODS if tier == 'thorough' else rng.sample(pipeline.METHODS, 3)):
        base = pipeline.gen_data(rng, mth, n=3, m=4, extra=1)
        for label, bad, exp, kw in list(service.bias_mutations(rng, base)) + list(service.mutations(rng, base)):
            if exp != 'reject':
                continue
            a = copy.deepcopy(base)
            names = [b['name'] for b in bad.get('biases', []) if b.get('name') in DEFAULTS]
            for nm in names[:1]:
                a['biases'] = [{'name': nm, 'props': copy.deepcopy(DEFAULTS[nm])}]
            if not names and bad.get('biases') and bad['biases'][0].get('name') == 'anchoring':
                a['biases'] = [pipeline.gen_bias(rng, 'anchoring', a, 3)]
            g = [pcase(a, via='lib', failprop='C09', group={'id': 'x', 'rel': 'samereq', 'p': 'C09'}),
                 pcase(bad, via='lib', failprop='C09', expect='any', group={'id': 'x', 'rel': 'samereq', 'p': 'C09'}),
                 pcase(copy.deepcopy(a), via='lib', failprop='C09', group={'id': 'x', 'rel': 'samereq', 'p': 'C09'})]
            groups.append(g)
    N = 40 if tier == 'quick' else 600
    for _ in range(N):
        hist = []
        first = None
        same = rng.choice(pipeline.METHODS) if rng.random() < 0.6 else None    # histories of one method: shared defaults / prototypes
        for j in range(rng.randint(3, 5)):
            mth = same or rng.choice(['majorityHeuristic', 'satisfactionHeuristic', 'aspectEliminationHeuristic', 'weightedSum', 'electreIII', 'owa', 'choquetIntegral'])
            req = pipeline.gen_data(rng, mth, extra=rng.choice([0, 0, 1]))
            if same and j == 0:      # the request that is repeated at the end relies on defaults ...
                req['methodParameters'].pop('electreDistillation', None)
                req['methodParameters'].pop('drawResolution', None)
            elif same == 'electreIII':   # ... the ones in between set the same options explicitly
                req['methodParameters']['electreDistillation'] = {'a': 0, 'b': rng.choice([P // 8, P // 2, P])}
            if mth in ('majorityHeuristic', 'satisfactionHeuristic') and rng.random() < 0.7:
                req['methodParameters']['currentChoice'] = rng.choice(req['choseToMake'])
            seq = rng.choice([['fatigue'], ['preferenceReversal'], ['fatigue', 'preferenceReversal'], ['criteriaConcealment', 'fatigue'],
                              ['anchoring'], ['criteriaMixing', 'criteriaOmission'], []])
            m_now = len(req['criteria'])
            for name in seq:
                b = pipeline.gen_bias(rng, name, req, m_now)
                if name == 'criteriaOmission':
                    b['props']['max'] = 1
                    b['props'].pop('min', None)
                req['biases'].append(b)
            if first is None:
                first = req
                if rng.random() < 0.5:     # the request that is repeated relies on defaults for every optional setting
                    OPTIONAL = ('newCriterionImportance', 'referenceCriterionType', 'newCriterionRandomSeed', 'multiplier', 'alpha', 'queryNumber',
                                'allowedValuesRangeScaling', 'disallowNegativeValues', 'ordering', 'mixingRatio', 'newCriterionScaling', 'applyOnNotConsidered')

                    def strip_opt(v):
                        if isinstance(v, dict):
                            return {k: strip_opt(x) for k, x in v.items() if k not in OPTIONAL}
                        if isinstance(v, list):
                            return [strip_opt(x) for x in v]
                        return v
                    req['biases'] = strip_opt(req['biases'])
            hist.append(req)
        if rng.random() < 0.5:      # a rejected request in between must not leave anything behind either
            bad = rng.choice(list(service.bias_mutations(rng, first)) + list(service.mutations(rng, first)))
            hist.insert(rng.randint(1, len(hist)), dict(bad[1], _expect=bad[2]))
        hist.append(copy.deepcopy(first))
        via = rng.choice(['lib', 'libexact', 'http', 'http'])      # http: through the real handler (decoding, pooling, recover)
        g = [pcase({k: v for k, v in r.items() if k != '_expect'}, via=via, failprop='C09', expect=('any' if '_expect' in r else 'ok'),
                   group={'id': 'x', 'rel': 'samereq', 'p': 'C09'}) for r in hist]
        groups.append(g)
    return groups


# ---------------------------------------------------------------- omission twin: the request with the criteria deleted
def reduce_request(req, omitted):
    r = copy.deepcopy(req)
    om = set(omitted)
    r['biases'] = []
    r['criteria'] = [c for c in r['criteria'] if c['id'] not in om]
    for a in r['knownAlternatives']:
        a['criteria'] = {c: v for c, v in a['criteria'].items() if c not in om}
    mp = r['methodParameters']
    m = r['preferenceFunction']
    if 'weights' in mp:
        if m == 'choquetIntegral':
            mp['weights'] = {k: v for k, v in mp['weights'].items() if not (set(k.split(',')) & om)}
        else:
            mp['weights'] = {k: v for k, v in mp['weights'].items() if k not in om}
    if 'electreCriteria' in mp:
        mp['electreCriteria'] = {k: v for k, v in mp['electreCriteria'].items() if k not in om}
    if isinstance(mp.get('params'), dict) and 'thresholds' in mp['params']:
        mp['params']['thresholds'] = [{k: v for k, v in t.items() if k not in om} for t in mp['params']['thresholds']]
    return r


def twins_omission(obs):
    """second pass: for every accepted request whose only bias is a fired omission, the same request with the
    omitted criteria deleted and no bias; the two decisions must agree per alternative (C15)"""
    out = []
    for i, o in enumerate(obs):
        c = o['case']
        bs = c['req'].get('biases', [])
        if o.get('status') != 200 or len(bs) != 1 or bs[0]['name'] != 'criteriaOmission' or 'group' in c or c.get('notwin'):
            continue
        if 'zz_undeclared' in json.dumps(c['req']['methodParameters']):
            continue
        ev = [e for e in o.get('events', []) if e.get('kind') == 'bias']
        if len(ev) != 1 or not ev[0].get('fired'):
            continue
        rep = ev[0].get('report', {}).get('props', {})
        om = [x.get('id') for x in rep.get('omittedCriteria', [])] if isinstance(rep, dict) else []
        if not om or not all(isinstance(x, str) for x in om):
            continue
        if len(om) >= len(c['req']['criteria']):
            continue
        t = dict(c)
        t['req'] = reduce_request(c['req'], om)
        t['methodref'] = True
        out.append((i, t))
    return out


# ---------------------------------------------------------------- HTTP service session (C20)
def drv_service(tier, rng):
    return [[c] for c in service.catalogue(tier, rng)]


# ---------------------------------------------------------------- C10: concurrency
def conc_pool(rng):
    """requests by number of biases (gates = 2 + #biases); stateful level iterators, twins and a panicking one included"""
    pool = {0: [], 1: [], 2: []}
    for mth in pipeline.METHODS:
        for k in (0, 1, 2):
            for _ in range(2):
                seq = [rng.choice(pipeline.BIASES) for _ in range(k)]
                pool[k].append(pipeline.pipeline_case(rng, mth, seq))
    for k in (0, 1, 2):   # two requests of the same stateful-iterator method, different parameters
        for mth in ('satisfactionHeuristic', 'aspectEliminationHeuristic'):
            pool[k].append(pipeline.pipeline_case(rng, mth, [rng.choice(pipeline.BIASES) for _ in range(k)]))
    bad = pipeline.pipeline_case(rng, 'weightedSum', [])
    bad['methodParameters']['weights'].pop(bad['criteria'][0]['id'])
    # further rejected requests (unknown names, out-of-range options): error paths run next to valid requests
    base = pipeline.gen_data(rng, 'majorityHeuristic', n=3, m=3, extra=1)
    rej = [m[1] for m in list(service.bias_mutations(rng, base)) + list(service.mutations(rng, base)) if m[2] == 'reject']
    pool[0].extend(rng.sample(rej, min(8, len(rej))))
    # several requests rejected for the same kind of reason with different particulars (each answer names its own culprit)
    for k in range(6):
        r = copy.deepcopy(base)
        if k % 2:
            r['choseToMake'] = r['choseToMake'] + ['nobody%d' % k]
        else:
            r['methodParameters']['currentChoice'] = 'stranger%d' % k
        pool[0].append(r)
    return pool, bad


def conc_from_schedules(records, tier, rng):
    pool, bad = conc_pool(rng)
    groups = []
    per = 2 if tier == 'quick' else 6
    for rec in records:
        g = rec['gates']
        counts = [g // 100, (g // 10) % 10, g % 10] if g >= 100 else [g // 10, g % 10]
        for j in range(per):
            reqs = []
            for c in counts:
                reqs.append(copy.deepcopy(rng.choice(pool[c - 2])))
            r = rng.random()
            if r < 0.2 and counts[0] == counts[1]:
                reqs[1] = copy.deepcopy(reqs[0])          # identical twins running simultaneously
            elif r < 0.3:
                reqs[-1] = copy.deepcopy(bad)             # a panicking request next to valid ones
            elif r < 0.5:                                   # two decisions of the same stateful method
                mth = rng.choice(['satisfactionHeuristic', 'aspectEliminationHeuristic'])
                reqs = [pipeline.pipeline_case(rng, mth, [rng.choice(pipeline.BIASES) for _ in range(c - 2)]) for c in counts]
            groups.append([{'fam': 'conc', 'unit': pipeline.PU, 'reqs': reqs, 'schedule': rec['schedule'], 'gates': g}])
    return groups


def drv_conc_free(tier, rng):
    pool, bad = conc_pool(rng)
    reqs = [r for k in pool for r in pool[k]] + [bad, bad]
    rng.shuffle(reqs)
    out = []
    nb = 3 if tier == 'quick' else 12
    for i in range(nb):
        sub = rng.sample(reqs, 24)
        out.append([{'fam': 'conc', 'unit': pipeline.PU, 'free': True, 'reqs': sub, 'workers': 16,
                     'iterations': 25 if tier == 'quick' else 200}])
    return out


def post_races(obs, out):
    n = out.count('WARNING: DATA RACE')
    for o in obs:
        o['races'] = n
    return obs


# ---------------------------------------------------------------- C02: repeatability
def drv_repeat(tier, rng):
    groups = []
    n = 8 if tier == 'quick' else 50
    rid = 0
    for mth in pipeline.METHODS:
        for _ in range(n):
            req = pipeline.pipeline_case(rng, mth)
            mp = req['methodParameters']
            if mth in ('majorityHeuristic', 'aspectEliminationHeuristic', 'satisfactionHeuristic') and rng.random() < 0.5:
                mp['randomAlternativesOrdering'] = True
            if rng.random() < 0.35:     # seeds left out (they default to 0): still a function of the request
                def strip(v):
                    if isinstance(v, dict):
                        return {k: strip(x) for k, x in v.items() if k not in INT_KEYS or k == 'queryNumber'}
                    if isinstance(v, list):
                        return [strip(x) for x in v]
                    return v
                req = strip(req)
                for b in req['biases']:
                    if rng.random() < 0.5:
                        b['applyProbability'] = rng.choice([pipeline.PU // 4, pipeline.PU // 2, 3 * pipeline.PU // 4])
            rid += 1
            groups.append([{'fam': 'repeat', 'unit': pipeline.PU, 'rid': 'r%d' % rid, 'req': req, 'repeat': 3 if tier == 'quick' else 10}])
    # near-ties: values closer than the tolerances the methods use (1e-5 Choquet, 1e-6 majority) but not identical -
    # whatever a method does with them must not depend on map iteration order
    for mth in ('choquetIntegral', 'majorityHeuristic', 'owa', 'weightedSum'):
        for _ in range(6 if tier == 'quick' else 30):
            req = pipeline.gen_data(rng, mth, n=rng.randint(2, 3), m=rng.randint(2, 4), extra=0, positive=True)
            base = pipeline.PU * rng.choice([1, 2, 4])
            nud = []
            for a in req['knownAlternatives']:
                for j, c in enumerate(sorted(a['criteria'])):
                    a['criteria'][c] = base
                    nud.append({'alt': a['id'], 'crit': c, 'k': rng.choice([0, 1, 2, 3, 5]), 'e': 20})
            rid += 1
            groups.append([{'fam': 'repeat', 'unit': pipeline.PU, 'rid': 'r%d' % rid, 'req': req, 'nudge': nud, 'repeat': 12 if tier == 'quick' else 40}])
    # everything drawn from a request's own seed is a function of the request: the same seed again, in the same process,
    # gives the same draw (random criteria ordering of omission / reversal, seeded walk orders of the heuristics)
    for _ in range(3 if tier == 'quick' else 15):
        for bias in ('criteriaOmission', 'preferenceReversal'):
            req = pipeline.gen_data(rng, rng.choice(pipeline.METHODS), n=3, m=4, extra=0)
            req['biases'] = [{'name': bias, 'props': {'ratio': pipeline.PU // 2, 'ordering': 'random', 'randomSeed': rng.randint(0, 50)}}]
            rid += 1
            groups.append([{'fam': 'repeat', 'unit': pipeline.PU, 'rid': 'r%d' % rid, 'req': req, 'repeat': 12 if tier == 'quick' else 40}])
        for mth, mp in (('majorityHeuristic', {'weights': {'c1': pipeline.PU}, 'drawResolution': 'current'}),
                        ('aspectEliminationHeuristic', {'function': 'thresholds', 'params': {'thresholds': [{'c1': 2 * pipeline.PU}]}, 'weights': {'c1': pipeline.PU}}),
                        ('satisfactionHeuristic', {'function': 'thresholds', 'params': {'thresholds': [{'c1': 0}]}})):
            known = [{'id': 'a%d' % i, 'criteria': {'c1': pipeline.PU}} for i in range(1, 6)]
            req = {'preferenceFunction': mth, 'knownAlternatives': known, 'choseToMake': [a['id'] for a in known], 'criteria': [{'id': 'c1', 'type': 'gain'}],
                   'methodParameters': dict(mp, randomSeed=rng.randint(0, 50), randomAlternativesOrdering=True), 'biases': []}
            rid += 1
            groups.append([{'fam': 'repeat', 'unit': pipeline.PU, 'rid': 'r%d' % rid, 'req': req, 'repeat': 12 if tier == 'quick' else 40}])
    # equal criterion weights: the order among them is drawn from the request's seed, hence the same every time
    for _ in range(6 if tier == 'quick' else 30):
        req = pipeline.gen_data(rng, 'aspectEliminationHeuristic', n=rng.randint(3, 5), m=3, extra=0)
        for c in req['methodParameters']['weights']:
            req['methodParameters']['weights'][c] = pipeline.PU
        rid += 1
        groups.append([{'fam': 'repeat', 'unit': pipeline.PU, 'rid': 'r%d' % rid, 'req': req, 'repeat': 12 if tier == 'quick' else 40}])
    # map-shaped parameters whose keys collide after normalisation (one criteria union spelled in two orders, with two
    # different capacities): whatever the answer is - the pinned code rejects them - it must be the same every time
    for _ in range(4 if tier == 'quick' else 20):
        req = pipeline.gen_data(rng, 'choquetIntegral', n=3, m=3, extra=0, positive=True)
        w = req['methodParameters']['weights']
        cs = sorted(c['id'] for c in req['criteria'])
        full = ','.join(cs)
        w.pop(full, None)
        w[','.join([cs[1], cs[0], cs[2]])] = pipeline.PU // 4
        w[','.join([cs[2], cs[1], cs[0]])] = pipeline.PU
        if rng.random() < 0.5:
            pair = ','.join(cs[:2])
            w.pop(pair, None)
            w[','.join([cs[1], cs[0]])] = pipeline.PU // 2
        rid += 1
        groups.append([{'fam': 'repeat', 'unit': pipeline.PU, 'rid': 'r%d' % rid, 'req': req, 'repeat': 12 if tier == 'quick' else 40}])
    # rejected and unusual requests of the service catalogue, interleaved: error paths must not leave anything behind
    for c in [c for c in service.catalogue('quick', rng) if c['label'] != 'bytes'][::2 if tier == 'quick' else 1]:
        rid += 1
        c = dict(c, rid='r%d' % rid, repeat=2)
        groups.append([c])
    return groups


# ---------------------------------------------------------------- the repository's own example requests
INT_KEYS = ('randomSeed', 'biasApplyRandomSeed', 'newCriterionRandomSeed', 'queryNumber')


def to_unit(v, unit, key='', parent=''):
    """a real request -> case numbers (integers of `unit`); None if some number is not representable"""
    if isinstance(v, bool) or v is None or isinstance(v, str):
        return v
    if isinstance(v, (int, float)):
        if key in INT_KEYS or (key in ('min', 'max') and parent != 'valuesRange'):
            return v
        y = v * unit
        if abs(y - round(y)) > 1e-7 or abs(y) > 2 ** 30:
            raise ValueError(key)
        return int(round(y))
    if isinstance(v, dict):
        return {k: to_unit(x, unit, k, key) for k, x in v.items()}
    if isinstance(v, list):
        return [to_unit(x, unit, key, parent) for x in v]
    return v


def drv_examples(tier, rng):
    repo = os.environ.get('VERIF_REPO', '/repo')
    base = os.path.join(repo, 'httpClient', 'examples')
    groups = []
    if not os.path.isdir(base):
        return groups
    for name in sorted(os.listdir(base)):
        f = os.path.join(base, name, 'request.json')
        if not os.path.exists(f):
            continue
        try:
            req = to_unit(json.load(open(f)), 1000)
        except Exception:
            continue
        req.setdefault('biases', [])
        groups.append([pcase(req, unit=1000, methodref=False, example=name, via='lib')])
    return groups


# ---------------------------------------------------------------- larger credibility matrices for the distillation
def drv_distil(tier, rng):
    """random n x n credibility matrices (n = 4..6) over sixteenths with dyadic distillation functions: nested inner
    distillations (several ex-aequo candidates at a positive cut level) need this many alternatives and levels"""
    groups = []
    funs = [([0, 1], [1, 8], 0, UNIT // 8), ([-1, 8], [1, 4], -(UNIT // 8), UNIT // 4), ([-1, 2], [1, 2], -(UNIT // 2), UNIT // 2), ([0, 1], [0, 1], 0, 0)]
    N = 1500 if tier == 'quick' else 30000
    for _ in range(N):
        n = rng.choice([4, 5, 6, 6, 6])
        ids = ALT[:n]
        m = [[16 if i == j else rng.randint(0, 16) for j in range(n)] for i in range(n)]
        sa, sb, ra, rb = rng.choice(funs)
        groups.append([{'fam': 'ElectreS2', 'unit': UNIT, 'fragile': False, 'sa': sa, 'sb': sb, 'mden': 16,
                        'm4': {ids[i]: {ids[j]: m[i][j] for j in range(n)} for i in range(n)},
                        'dist': {'alts': ids, 'matrix': [[m[i][j] * (UNIT // 16) for j in range(n)] for i in range(n)], 'a': ra, 'b': rb}}])
    return groups


# ---------------------------------------------------------------- level series with decimal (non-dyadic) parameters
def drv_levels_decimal(tier, rng):
    """contract only (monotone, finite, inside the range, rejected iff out of the documented domain): the exact series
    is decided on the dyadic grid of MC_Levels"""
    DU = 1000
    groups = []
    coefs = [1, 300, 999, 100, 700, 500, 0, 1000]
    bounds = [0, 1, 100, 250, 333, 500, 900, 999, 1000, 1001]
    data = [([{'id': 'c1', 'type': 'gain', 'valuesRange': {'min': 0, 'max': 10 * DU}}, {'id': 'c2', 'type': 'cost'}],
             [{'id': 'a1', 'criteria': {'c1': 2 * DU, 'c2': 7 * DU}}, {'id': 'a2', 'criteria': {'c1': 9 * DU, 'c2': -3 * DU}}, {'id': 'a3', 'criteria': {'c1': 5 * DU, 'c2': 1 * DU}}])]
    for _ in range(150 if tier == 'quick' else 2500):
        d = rng.choice(['inc', 'dec'])
        mode = rng.choice(['idealMultipliedCoefficient', 'idealAdditiveCoefficient' if d == 'inc' else 'idealSubtractiveCoefficient'])
        co, lo, hi = rng.choice(coefs), rng.choice(bounds), rng.choice(bounds)
        if d == 'inc':
            valid = 0 < co < DU and 0 <= lo <= DU and 0 <= hi <= DU
        else:
            valid = 0 < co < DU and 0 < lo <= DU and 0 < hi <= DU
        if valid:       # the harness walks at most 2000 levels: leave out finite series longer than that (0.5 x 0.999^n down to 0.001 ...)
            r, n = (lo if d == 'inc' else hi) / DU, 0
            c = co / DU
            while n <= 1500 and (r < hi / DU if d == 'inc' else r > lo / DU):
                if d == 'inc':
                    r = min((1 + r) * (1 + c) - 1, 1) if mode == 'idealMultipliedCoefficient' else min(r + c, 1)
                else:
                    r = r * c if mode == 'idealMultipliedCoefficient' else max(r - c, 0)
                n += 1
            if n > 1500:
                continue
        crits, alts_ = rng.choice(data)
        groups.append([{'fam': 'Levels', 'unit': DU, 'valid': valid, 'exact': False, 'nocount': True,
                        'lv': {'dir': d, 'function': mode, 'params': {'coefficient': co, 'minValue': lo, 'maxValue': hi},
                               'criteria': crits, 'alternatives': alts_, 'considered': {'int': 2}}}])
    return groups


def nt_ties(o):
    """non-trivial for ranking shape: at least two entries and at least one tie or two levels"""
    r = o.get('resp', {}).get('result', [])
    return isinstance(r, list) and len(r) >= 2


def nt_formula(o):
    r = o.get('resp', {}).get('result', [])
    return isinstance(r, list) and len(r) >= 1 and len(o['case']['req']['criteria']) >= 2


FAMILIES = {
    'utility': {
        'mc': 'MC_Utility',
        'mc_cfg': {'quick': 'MC_Utility_quick.cfg', 'thorough': 'MC_Utility_thorough.cfg'},
        'mode': 'decide',
        'trace': 'Trace_Decide',
        'drivers': [drv_utility],
    },
    'levels': {
        'mc': 'MC_Levels',
        'mc_cfg': {'quick': 'MC_Levels_quick.cfg', 'thorough': 'MC_Levels_thorough.cfg'},
        'mode': 'levels',
        'trace': 'Trace_Levels',
        'drivers': [drv_levels_decimal],
    },
    'aspect': {
        'mc': 'MC_AspectElim',
        'mc_cfg': {'quick': 'MC_AspectElim_quick.cfg', 'thorough': 'MC_AspectElim_thorough.cfg'},
        'mc_sample': {'quick': 3000, 'thorough': 60000},
        'mode': 'decide', 'trace': 'Trace_Decide', 'drivers': [drv_aspect],
    },
    'satisfaction': {
        'mc': 'MC_Satisfaction',
        'mc_cfg': {'quick': 'MC_Satisfaction_quick.cfg', 'thorough': 'MC_Satisfaction_thorough.cfg'},
        'mc_sample': {'quick': 3000, 'thorough': 60000},
        'mode': 'decide', 'trace': 'Trace_Decide', 'drivers': [drv_satisfaction],
    },
    'electre_s2': {
        'mc': 'MC_Electre',
        'mc_cfg': {'quick': 'MC_Electre_quick.cfg', 'thorough': 'MC_Electre_thorough.cfg'},
        'mc_workers': 14,
        'mode': 'distil', 'trace': 'Trace_Electre2', 'drivers': [drv_distil],
    },
    'electre': {
        'mc': 'MC_ElectreE',
        'mc_cfg': {'quick': 'MC_ElectreE_quick.cfg', 'thorough': 'MC_ElectreE_thorough.cfg'},
        'mc_sample': {'quick': 600, 'thorough': 20000}, 'mc_workers': 12, 'mc_timeout': {'thorough': 5400},
        'mode': 'decide', 'trace': 'Trace_Decide', 'drivers': [drv_electre, drv_electre_near, drv_electre_many], 'chunk_lines': 80, 'trace_chunks': 12,
    },
    'electre_dom': {
        'mode': 'decide', 'trace': 'Trace_Decide', 'drivers': [drv_electre_dom], 'screen': 'c06',
        'screen_chunks': {'quick': 2, 'thorough': 20}, 'screen_keep': {'quick': 300, 'thorough': 2000}, 'chunk_lines': 80, 'trace_chunks': 12,
    },
    'pipeline': {
        'mc': 'MC_Decision', 'mc_cfg': {'quick': 'MC_Decision_quick.cfg', 'thorough': 'MC_Decision_thorough.cfg'},
        'mc_sample': {'quick': 100, 'thorough': 3000}, 'mc_workers': 12,
        'mode': 'decide', 'trace': 'Trace_Decide', 'drivers': [drv_pipeline, drv_examples],
        'second_pass': twins_omission, 'second_rel': {'rel': 'perm', 'p': 'C15'},
    },
    'service': {
        'mc': 'MC_Service', 'mc_cfg': {'quick': 'MC_Service_quick.cfg', 'thorough': 'MC_Service_thorough.cfg'},
        'mc_extra': [('MC_Service_live.cfg', None), ('MC_Service_dev_unguarded.cfg', 'Survives'), ('MC_Service_dev_sharediter.cfg', 'Isolation')],
        'mode': 'serve', 'server': True, 'trace': 'Trace_Service', 'trace_workers': 1,
        'trace_states': lambda n: n + 1, 'drivers': [drv_service],
    },
    'conc_gated': {
        'mc': 'MC_Schedules', 'mc_cfg': {'quick': 'MC_Schedules_quick.cfg', 'thorough': 'MC_Schedules_thorough.cfg'},
        'mc_to_cases': conc_from_schedules, 'mc_sample': {'quick': 60, 'thorough': 4000},
        'mode': 'conc', 'trace': 'Trace_Conc', 'drivers': [],
    },
    'conc_free': {
        'mode': 'conc', 'race': True, 'ok_rcs': (0, 66), 'crash_obs': True, 'procs': {'quick': 6, 'thorough': 24}, 'post': post_races,
        # a handler that never returns would block the run for ever: the harness run is bounded
        'harness_timeout': {'quick': 300, 'thorough': 1500}, 'trace': 'Trace_Conc', 'drivers': [drv_conc_free],
    },
    'conc_model': {
        'mc': 'MC_Service', 'mc_cfg': {'quick': 'MC_Service_quick.cfg', 'thorough': 'MC_Service_thorough.cfg'},
        'mc_extra': [('MC_Service_dev_sharediter.cfg', 'Isolation')], 'model_only': True,
    },
    'repeat': {
        'mode': 'hist', 'procs': {'quick': 3, 'thorough': 8}, 'trace': 'Trace_Repeat', 'trace_workers': 1,
        'trace_states': lambda n: n + 1, 'drivers': [drv_repeat],
    },
    'c09': {
        'mode': 'decide', 'trace': 'Trace_Decide', 'drivers': [drv_c09],
    },
    'c08': {
        'mode': 'decide', 'trace': 'Trace_Decide', 'drivers': [drv_c08],
    },
    'majority': {
        'mc': 'MC_Majority',
        'mc_cfg': {'quick': 'MC_Majority_quick.cfg', 'thorough': 'MC_Majority_thorough.cfg'},
        'mode': 'decide',
        'trace': 'Trace_Decide',
        'drivers': [drv_majority],
    },
}

def nt_majority(o):
    r = o.get('resp', {}).get('result', [])
    if not isinstance(r, list) or len(r) < 3:
        return False
    return any(e['evaluation'].get('comparedWith') and e['evaluation']['value'] == e['evaluation']['comparedAlternativeValue'] for e in r)


def nt_levels(o):
    return o.get('status') == 200 and len(o.get('series', [])) >= 2


def nt_heur(o):
    r = o.get('resp', {}).get('result', [])
    return isinstance(r, list) and len(r) >= 3 and len({e['evaluation'].get('thresholdsIndex') for e in r}) >= 2


def nt_electre2(o):
    r = o.get('result') or o.get('resp', {}).get('result', [])
    return len({e['evaluation']['ascendingIndex'] for e in r}) >= 2 or len({e['evaluation']['descendingIndex'] for e in r}) >= 2


def nt_pipeline(o):
    return sum(1 for e in o.get('events', []) if e.get('kind') == 'bias' and e.get('fired')) >= 1


PROPS = {
    'C02': {'level_text': "Service!Deterministic (history variable answers: request -> set of answers) validated by Trace_Repeat on recorded histories: every request of a pool (all methods x random bias sequences, seeded orders, near-ties inside the methods' tolerances, rejected requests) executed repeatedly in one process and in several fresh processes in shuffled order; byte equality by digest", 'level_note': 'map-order dependence is only found probabilistically (R repetitions x P processes); MC_Service shows the design has no history dependence', 'families': ['repeat'], 'nontrivial': lambda o: o.get('status') == 200,
            'rule': 'events = executions of a pool of requests (all methods x random bias sequences, seeded random orders, rejected requests), repeated in-process and in several fresh processes in shuffled order; non-trivial = execution of an accepted request; distinct by request id',
            'nt_key': lambda o: o.get('rid')},
    'C10': {'proofs': ['Service_proofs'], 'level_text': "MC_Service explores every interleaving of two (three) handlers' steps with Isolation / RegistryUntouched / Deterministic (named deviation SharedIterator must violate Isolation); MC_Schedules enumerates gate schedules, replayed by a blocking hook (gated) and compared with solo responses; free run of 16 goroutines through the real handler built with -race on a cold process, responses compared with solo, race reports counted; TLAPS (spec/proofs/Service_proofs.tla, 193 obligations) proves Isolation, RegistryUntouched and single-valued answers for ANY number of clients and any request pool", 'level_note': 'gates serialise handlers between hook points (no interleaving inside a bias or Evaluate): state shared there is caught by the free run / race detector, which is an auxiliary observer and probabilistic', 'families': ['conc_model', 'conc_gated', 'conc_free'], 'nontrivial': lambda o: True,
            'rule': 'gated = one run per (TLC-generated schedule x request tuple); free = batches of ungated concurrent requests through the real handler built with -race; distinct by schedule + requests'},
    'C20': {'proofs': ['Service_proofs'], 'level_text': 'Service.tla handler state machine model-checked (Survives, StatusClass, liveness Answered under weak fairness; GuardDiverging = FALSE must violate Survives); a session of valid requests, every documented constraint violated singly (Validate.tla decides the expected class from the request), malformed / mistyped / extreme / byte-mutated bodies against the REAL server process on loopback, liveness probe (GET /api/preferenceFunctions lists seven schemas) after every request; Trace_Service carries `alive`; TLAPS proves Survives and StatusClass for any number of clients and any pool (the deviation GuardDiverging = FALSE must make the proof fail)', 'level_note': 'gin internals and byte-level JSON are exercised, not modelled; per-request timeout 20 s counts as no answer', 'families': ['service'], 'nontrivial': lambda o: o['case'].get('expect') in ('reject', 'any'),
            'rule': 'cases = valid requests of all methods, every documented constraint violated singly, malformed / mistyped / mutated bodies, sent as one session to the real server process; non-trivial = request that is not a plain valid one; distinct by body'},
    'C09': {'level_text': 'digests of the request, of every state handed on, of every report and of the pre-bias state taken at the hook point and again after the decision; earlier results re-digested after later calls; reports compared field by field with the state the next stage received (Biases.tla); histories: same request again after other (also rejected) requests, error-path sandwiches; JSON-decoded and exact-capacity inputs', 'level_note': 'library path (MakeDecision) with registries of main.go; identity of Go objects observed through digests, not modelled in TLA+', 'families': ['c09', 'pipeline'], 'nontrivial': nt_pipeline,
            'rule': 'non-trivial = library-path decision in which at least one bias fired (reports and handed-on states exist to be compared); distinct by request'},
    'C08': {'proofs': ['Decision_proofs'], 'level_text': 'echo, skip-is-identity, p=1 always / p=0 never on every pipeline line; draw independence and monotonicity as satisfiability of one hidden draw per (seed, position) across groups of runs that differ in other entries / own probabilities / inserted disabled entries (incl. unknown names); firing frequency over 600 (4000) seeds within 7 sigma; FireRule, BiasEcho, SkipIsIdentity are invariants of MC_Decision over all draws; TLAPS proves FireRule (hence P1Always / P0Never for draws in 0..3), Echo (every processed position is reported under its own name, null when skipped) and SkipIsIdentity for bias lists of any length', 'level_note': 'frequency clause is statistical (false alarm < 1e-11)', 'families': ['c08', 'pipeline'], 'nontrivial': lambda o: len(o['case']['req'].get('biases', [])) >= 1 and o.get('status') == 200,
            'rule': 'non-trivial = accepted request with at least one requested bias; distinct by request (seed included)'},
    'C19': {'level_text': 'reference point within the admissible set (coefficient-weighted best/worst, cross-multiplied for cost), scaling = 1/range, mapped differences through linear gain/loss exactly (either branch within rounding of 0 after real-valued biases), inline: new = bound(v + range*coef), applied differences = new - old, untouched not-considered unless asked, zero functions = identity; new criterion: mid + half * importance-weighted mean (exact where small, interval otherwise), report = next state', 'level_note': 'expFromZero: sign / zero-multiplier clauses only', 'families': ['pipeline'], 'nontrivial': lambda o: any(e.get('fired') and 'perReferencePointsDifferences' in str(e.get('report')) for e in o.get('events', [])),
            'rule': 'non-trivial = request in which an anchoring bias fired; distinct by request'},
    'C18': {'level_text': "one new gain criterion appended with an unused id, values for everybody, old values and parameters untouched, new weight a fraction of a reference criterion's weight whose scaled range is the reported range, Choquet capacities extended consistently, concealed values inside the bounded scaled range, mixed value = ratio*c1+(1-ratio)*c2 of two distinct rescaled criteria (cross-multiplied rescaling check against some reference target), no-op below two criteria", 'level_note': 'reference criterion: importanceRatio strategy computed in the spec on exact data (ImportanceRef: weakest-first cumulated importance reaching newCriterionImportance x total); randomUniform / randomWeighted judged by their documented frequencies over 300 (thorough 3000) seeds (about n/3 each; 16 : 4 : 1 for importances 1 : 4 : 16); otherwise existentially among the existing criteria', 'families': ['pipeline'], 'nontrivial': lambda o: any(e.get('fired') and ('addedCriteria' in str(e.get('report')) or 'component1' in str(e.get('report'))) for e in o.get('events', [])),
            'rule': 'non-trivial = request in which a concealment or mixing bias fired; distinct by request'},
    'C15': {'level_text': "count = SplitCount, omitted within declared, partition, importance order under the method's documented importance (Importance.tla, exact states only), kept parameters / capacities / thresholds unchanged (listener algebra), twin = the request with the omitted criteria deleted (second pass) agreeing per alternative, probability orderings' first-position frequencies over 300 (3000) seeds", 'level_note': 'importance comparisons only where no earlier bias produced real numbers', 'families': ['pipeline'], 'nontrivial': lambda o: any(e.get('fired') and 'omittedCriteria' in str(e.get('report')) for e in o.get('events', [])),
            'rule': 'non-trivial = request in which a criteria-omission bias fired; distinct by request'},
    'C16': {'level_text': 'count and ordering as C15; every known alternative mirrored max+min-v with declared else currently observed range (exact on grid data, rounding slack after real-valued biases); report = next state; unselected values, criteria and parameters unchanged; double reversal of all criteria is the identity', 'families': ['pipeline'], 'nontrivial': lambda o: any(e.get('fired') and 'reversedPreferenceCriteria' in str(e.get('report')) for e in o.get('events', [])),
            'rule': 'non-trivial = request in which a preference-reversal bias fired; distinct by request'},
    'C17': {'level_text': "interval contract |v'-v| <= |f v| pushed through the monotone bounding (raise to 0, then clip to the scaled range of the current data), f=0 identity, zero stays zero, report lists = state handed on, criteria/parameters unchanged, both directions among >= 30 moved values", 'level_note': 'u and the sign are seeded real numbers: only interval/relational clauses; exp ratio taken from the report', 'families': ['pipeline'], 'nontrivial': lambda o: any(e.get('fired') and 'effectiveFatigueRatio' in str(e.get('report')) for e in o.get('events', [])),
            'rule': 'non-trivial = request in which a fatigue bias fired; distinct by request'},
    'C07': {'proofs': ['Decision_proofs'], 'level_text': "Decision.tla (abstract pipeline: criteria / value cover / parameter cover / split / touched values) model-checked for all bias lists up to length 2-3 with Coherent, SplitStable, Persistence; every emitted list x 7 methods plus seeded random pipelines (length <= 4, all options) and the repository's examples run through the library with hook H1; TLC validates after every bias: values and parameters cover exactly the current criteria (probe Evaluate/RankCriteriaAscending on a copy), split unchanged, criteria delta = reported delta, untouched values persist, status 200; TLAPS (spec/proofs/Decision_proofs.tla, 158 obligations) proves Coherent, SplitStable, Persistence for EVERY bias list, criteria set and draw sequence, not only the bounded instances", 'level_note': 'coherence of private parameter types is observed operationally (probe) and through reflective dumps; a bias removing every criterion is outside the domain', 'families': ['pipeline'], 'nontrivial': nt_pipeline,
            'rule': 'non-trivial = request in which at least one bias fired; distinct by request'},
    'C06': {'level_text': 'dominance, identical-alternatives, listing-order and weight-scaling relations evaluated by TLC on real ELECTRE III runs (each instance with a permuted twin and twins with all k x2 and x1/4); the same lemmas (CredOfDominator, DominanceLemma, IdenticalLemma, ScaleLemma) are invariants of MC_ElectreE on the definition; twins with every k x 2^-30 .. 2^10 and near-twin values (2^-44 apart) in four listing orders; a screened family runs 100 000 (thorough: 1 000 000) instances with dominated neighbours (shadow alternatives one or two steps worse, differences equal to thresholds) through the real code, a Go-side pre-check selects the suspicious ones and TLC judges those plus an even sample', 'level_note': 'relations are comparison-only (float-safe); a change that alters indices without breaking these relations is reported by C05, not here; the Go-side pre-check of the screened family only selects cases, every verdict is TLC\'s', 'families': ['electre', 'electre_dom'], 'nontrivial': nt_electre2,
            'rule': 'non-trivial = accepted ELECTRE III request whose two preorders are not both a single class; distinct by request'},
    'C05': {'level_text': 'exact-rational reference model Electre!CredMatrix + Electre!DistilP: stage 2 on ALL 3x3 credibility matrices over a quarter grid and random 4..6-alternative matrices over sixteenths through RankAscending/RankDescending/EvaluateRanking; stage 1 (credibility matrix via hook H2) and end-to-end indices/links on TLC-enumerated and random threshold configurations through MakeDecision; MC_Electre/MC_ElectreE check classes consecutive, progress, cut levels never rise, stepwise = recursive definition', 'level_note': "instances whose exact comparison ties involve non-dyadic numbers are flagged fragile by the spec and excluded from index equality (float arithmetic); constant thresholds only (the property's domain)", 'families': ['electre_s2', 'electre'], 'nontrivial': nt_electre2,
            'rule': 'non-trivial = instance whose two preorders are not both a single class; distinct by instance'},
    'C12': {'level_text': 'AspectElim.tla (one examined alternative per step) model-checked with ElimSound / SurvivorsSound / StopRule; per entry: reported level, criterion and threshold equal the spec-derived level (Levels.tla) and the alternative passed every earlier check; ranking = survivors then reverse elimination classes (reference run, existential over tie-broken criteria orders / seeded orders)', 'level_note': 'same-check eliminations compared as unordered classes; generated levels only where exactly representable', 'families': ['aspect', 'pipeline'], 'cap': {'quick': 1500}, 'nontrivial': nt_heur,
            'rule': 'non-trivial = accepted aspect-elimination request ranking >= 3 alternatives on >= 2 different level indices; distinct by request'},
    'C13': {'level_text': 'Satisfaction.tla model-checked with AcceptedSound / LeftSound / Ordered; per entry: thresholds are level thresholdsIndex of the spec-derived series, satisfied on every criterion, every earlier level failed; leftovers report #levels and the worst range ends; acceptance order equals the reference run', 'level_note': 'explicit (also non-monotone) threshold lists and generated series where exactly representable', 'families': ['satisfaction', 'pipeline'], 'cap': {'quick': 1500}, 'nontrivial': nt_heur,
            'rule': 'non-trivial = accepted satisfaction request ranking >= 3 alternatives on >= 2 different level indices; distinct by request'},
    'C14': {'level_text': "Levels.tla iterator (r' = Upd(r) while HasNext) model-checked: strictly monotone, in [0,1], finite, first-level rule, stepwise = closed form; every parameter set of the grid (valid and invalid) drives the REAL iterators wired in main.go through Find/Initialize/HasNext/Next and the whole series is compared; decimal parameters (0.001, 0.3, 0.999) contract-only; end to end through both heuristics", 'level_note': 'exact series equality on dyadic parameters; non-dyadic ones: monotone, finite, inside the range, rejection iff out of domain', 'families': ['levels', 'aspect', 'satisfaction', 'pipeline'], 'cap': {'quick': 1500}, 'nontrivial': nt_levels,
            'rule': 'non-trivial = valid parameter set whose real iterator yields >= 2 levels; distinct by parameter set + data set'},
    'C11': {'level_text': 'Majority.tla tournament state machine (one comparison per step; `random` policy branches) model-checked with Partition / EntriesFaithful / FinalRanking; TLC recomputes both scores of every entry from the values finally evaluated, checks opponent position, draw policy for known search order, and equality with the reference run (existential search over orders / draws for seeded orders and the random policy); decimal weights whose sums differ only in the last float bit', 'level_note': "existential search bounded to 5 alternatives; the winner's own reported value is left open by the property", 'families': ['majority'], 'nontrivial': nt_majority,
            'rule': 'non-trivial = accepted majority request with >= 3 ranked alternatives and at least one drawn comparison; distinct by request'},
    'C01': {'level_text': 'Ranking!WellFormed is an invariant of the design models (MC_Majority, MC_AspectElim, MC_Satisfaction, MC_Utility, MC_ElectreE) and is evaluated by TLC on the real response of every replayed / random / pipeline case of all seven methods (all tie patterns up to 6-7 alternatives for the majority heuristic, all draw policies, current choice inside/outside choseToMake, bias sequences)', 'level_note': 'bounded exhaustive tie patterns + seeded random instances up to 8 alternatives; only the response shape is judged (contract), no reference model needed', 'families': ['utility', 'majority', 'aspect', 'satisfaction', 'electre', 'pipeline'], 'cap': {'quick': 1200}, 'nontrivial': nt_ties,
            'rule': 'cases = TLC-enumerated instances + seeded random instances; non-trivial = accepted request whose result has >= 2 entries; distinct by request'},
    'C03': {'level_text': 'reference equality with Utility!WS2 / OWA2 / Choquet2 evaluated by TLC on the criteria values finally evaluated and the post-bias parameters recorded by the hook, on exact dyadic grids (all capacity tables over {0,1/4,1/2,1} for 2 criteria, {0,1/2,1} for 3), also after omission / reversal; one case in six at magnitude 1e11..1e13 (values x 2^38 scaled back exactly)', 'level_note': "exact grids only (float accuracy on arbitrary reals is outside this technique); weightedSum's missing weight is a recorded known finding matched by the named deviation WSUnweighted", 'families': ['utility', 'pipeline'], 'nontrivial': nt_formula,
            'rule': 'non-trivial = accepted utility request with >= 2 criteria (weights/capacities matter); distinct by request'},
    'C04': {'level_text': 'Ranking!VOrder / VLinks (order by value then id, links = ties + next lower level) evaluated by TLC on the reported utilities of every replayed case; MC_Utility checks on the design that following these links reaches exactly the alternatives not valued higher (ReachTheorem) for all tie patterns up to 6 alternatives; listing-order twins must agree per alternative; values one 1e-8 step apart (unit 1e8) and sub-step nudges; one case in six at magnitude 1e11..1e13 (criterion values x 2^38, scaled back by the harness); listing-order twins also through concealment / mixing / omission / reversal (pipeline family)', 'level_note': 'comparison-only contract on the reported values (independent of C03); exhaustive tie patterns to n=4 (quick) / 6 (thorough), random to n=8', 'families': ['utility', 'pipeline'], 'cap': {'quick': 1500}, 'nontrivial': nt_ties,
            'rule': 'non-trivial = accepted utility request with >= 2 ranked alternatives; distinct by request'},
}
