"""Case generators for the bias pipeline: any of the seven methods x sequences of the six biases with
their options.  Numbers are integers of the family unit PU (values k*PU/4 ..), the harness divides."""
import copy, itertools

PU = 1024
ALT = ['a%d' % i for i in range(1, 13)]
CRIT = ['c%d' % i for i in range(1, 7)]
METHODS = ['weightedSum', 'owa', 'choquetIntegral', 'electreIII', 'majorityHeuristic',
           'aspectEliminationHeuristic', 'satisfactionHeuristic']
BIASES = ['criteriaOmission', 'preferenceReversal', 'fatigue', 'criteriaConcealment', 'criteriaMixing', 'anchoring']
ORDERINGS = ['weakest', 'strongest', 'random', 'weakestByProbability', 'strongestByProbability']
REFTYPES = ['importanceRatio', 'randomUniform', 'randomWeighted']


def setkey(cs):
    return ','.join(sorted(cs))


def subsets(cs):
    out = []
    for r in range(1, len(cs) + 1):
        out.extend(itertools.combinations(cs, r))
    return out


def gen_data(rng, method, n=None, m=None, extra=None, declared=None, positive=False):
    """alternatives, criteria and method parameters of a valid request"""
    n = n or (1 if rng.random() < 0.1 else rng.randint(2, 5))      # a decision about a single alternative is a decision too
    m = m or rng.randint(2, 4)
    extra = rng.choice([0, 0, 1, 2]) if extra is None else extra
    lo = 0 if positive or method in ('choquetIntegral',) else rng.choice([0, 0, -2])
    vals = list(range(lo, 9))
    types = ['gain' if method == 'choquetIntegral' or rng.random() < 0.6 else 'cost' for _ in range(m)]
    crits = []
    for j in range(m):
        c = {'id': CRIT[j], 'type': types[j]}
        d = rng.random() < 0.5 if declared is None else declared
        if d:
            c['valuesRange'] = {'min': PU * (lo - rng.choice([0, 1])), 'max': PU * rng.choice([8, 10, 16])}
        crits.append(c)
    known = []
    for i in range(n + extra):
        known.append({'id': ALT[i], 'criteria': {CRIT[j]: PU * rng.choice(vals) for j in range(m)}})
    if rng.random() < 0.12:     # a criterion on which all known alternatives agree (degenerate observed range)
        j = rng.randrange(m)
        v = PU * rng.choice(vals)
        for a in known:
            a['criteria'][CRIT[j]] = v
        crits[j].pop('valuesRange', None)
    if method != 'choquetIntegral':     # a criterion without `type` is a gain criterion
        for c in crits:
            if c['type'] == 'gain' and rng.random() < 0.15:
                c['_untyped'] = True
    if lo < 0 and rng.random() < 0.3:     # a criterion whose values (and range) are negative throughout
        j = rng.randrange(m)
        for a in known:
            a['criteria'][CRIT[j]] = -PU * rng.choice([1, 2, 3, 5, 8])
        if 'valuesRange' in crits[j]:
            crits[j]['valuesRange'] = {'min': -PU * rng.choice([8, 10]), 'max': -PU * rng.choice([0, 1]) // 2}
    chose = [a['id'] for a in known[:n]]
    rng.shuffle(chose)
    if rng.random() < 0.5:      # criteria need not be declared in any particular order
        order = list(range(m))
        rng.shuffle(order)
        crits = [crits[j] for j in order]
        types = [types[j] for j in order]
    cs = [c['id'] for c in crits]
    for c in crits:
        if c.pop('_untyped', False):
            del c['type']
    if method in ('weightedSum', 'owa'):
        mp = {'weights': {c: PU * rng.choice([0, 1, 2, 3, 5]) // rng.choice([1, 2]) for c in cs}}
    elif method == 'choquetIntegral':
        mp = {'weights': {setkey(s): (PU // 4) * rng.choice([0, 1, 2, 3, 4]) for s in subsets(cs)}}
    elif method == 'electreIII':
        ec = {}
        for c in cs:
            e = {'k': PU * rng.choice([1, 2, 3, 4])}
            cfg = rng.choice(['none', 'q', 'qp', 'qpv'])
            if 'q' in cfg:
                e['q'] = {'b': PU * 1}
            if 'p' in cfg:
                e['p'] = {'b': PU * 3}
            if 'v' in cfg:
                e['v'] = {'b': PU * 6}
            ec[c] = e
        mp = {'electreCriteria': ec}
        if rng.random() < 0.5:
            mp['electreDistillation'] = {'a': -(PU // 8), 'b': PU // 4}
    elif method == 'majorityHeuristic':
        mp = {'weights': {c: PU * rng.choice([0, 1, 2, 3, 5]) for c in cs}, 'randomSeed': rng.randint(0, 999),
              'drawResolution': rng.choice(['allow', 'current', 'newer', 'random'])}
        if rng.random() < 0.5:      # current choice among the considered, or a known alternative that is not considered
            outside = [a['id'] for a in known if a['id'] not in chose]
            mp['currentChoice'] = rng.choice(outside) if outside and rng.random() < 0.5 else rng.choice(chose)
    else:
        inc = method == 'aspectEliminationHeuristic'
        if rng.random() < 0.5:
            k = rng.randint(1, 3)
            steps = sorted(rng.sample(range(0, 9), k))
            ths = []
            for s_ in (steps if inc else steps[::-1]):
                ths.append({c: PU * (s_ if t == 'gain' else 8 - s_) for c, t in zip(cs, types)})
            fn, params = 'thresholds', {'thresholds': ths}
        else:
            coef = rng.choice([PU // 4, PU // 2, 3 * PU // 4])
            if inc:
                fn = rng.choice(['idealMultipliedCoefficient', 'idealAdditiveCoefficient'])
                params = {'coefficient': coef, 'minValue': rng.choice([0, PU // 4]), 'maxValue': rng.choice([PU // 2, PU])}
            else:
                fn = rng.choice(['idealMultipliedCoefficient', 'idealSubtractiveCoefficient'])
                params = {'coefficient': coef, 'minValue': rng.choice([PU // 4, PU // 2]), 'maxValue': rng.choice([3 * PU // 4, PU])}
        mp = {'function': fn, 'params': params, 'randomSeed': rng.randint(0, 999)}
        if inc:
            ws = rng.sample([1, 2, 3, 5, 7, 9], m)
            mp['weights'] = {c: PU * w for c, w in zip(cs, ws)}
        elif rng.random() < 0.5:
            outside = [a['id'] for a in known if a['id'] not in chose]
            mp['currentChoice'] = rng.choice(outside) if outside and rng.random() < 0.5 else rng.choice(chose)
    # the seeded-random walk order is an option like any other: it must survive every bias (the listeners rebuild the parameters)
    if method in ('majorityHeuristic', 'aspectEliminationHeuristic', 'satisfactionHeuristic') and rng.random() < 0.4:
        mp['randomAlternativesOrdering'] = True
    # method parameters may hold entries for criteria that are not declared (allowed input)
    if rng.random() < 0.15:
        if method in ('majorityHeuristic', 'aspectEliminationHeuristic'):
            mp['weights']['zz_undeclared'] = PU * rng.choice([1, 4, 20])
        elif method == 'electreIII':
            mp['electreCriteria']['zz_undeclared'] = {'k': PU * rng.choice([1, 4, 20])}
    # seeds are ordinary parameters: 0 is a seed like any other and a seed that is left out is 0
    if 'randomSeed' in mp and rng.random() < 0.2:
        if rng.random() < 0.5:
            mp['randomSeed'] = 0
        else:
            del mp['randomSeed']
    req = {'preferenceFunction': method, 'knownAlternatives': known, 'choseToMake': chose, 'criteria': crits,
           'methodParameters': mp, 'biases': [], 'biasApplyRandomSeed': rng.randint(0, 10 ** 6)}
    r = rng.random()
    if r < 0.1:
        req['biasApplyRandomSeed'] = 0
    elif r < 0.2:
        del req['biasApplyRandomSeed']
    return req


def bounding(rng, p):
    r = rng.random()
    if r < 0.4:
        return
    if r < 0.7:
        p['allowedValuesRangeScaling'] = rng.choice([-PU, PU // 2, PU, 2 * PU])      # negative = not bounded, like leaving it out
    if rng.random() < 0.4:
        p['disallowNegativeValues'] = True


def refcrit(rng, p):
    t = rng.choice(REFTYPES + [None])
    if t:
        p['referenceCriterionType'] = t
    if t in (None, 'importanceRatio'):
        if rng.random() < 0.8:
            p['newCriterionImportance'] = rng.choice([0, PU // 4, PU // 2, PU])
    else:
        p['newCriterionRandomSeed'] = rng.randint(0, 999)


def split(rng, p, m, keep_one=True):
    p['ratio'] = rng.choice([0, PU // 8, PU // 4, PU // 2, 3 * PU // 4, PU])
    if rng.random() < 0.4:
        p['min'] = rng.choice([0, 1])
    if keep_one or rng.random() < 0.7:
        p['max'] = rng.randint(max(p.get('min', 0), 0), max(m - 1, p.get('min', 0)))
    o = rng.choice(ORDERINGS + [None])
    if o:
        p['ordering'] = o
    p['randomSeed'] = rng.randint(0, 999)


def gen_bias(rng, name, req, m_now):
    p = {}
    ids = [a['id'] for a in req['knownAlternatives']]
    if name in ('criteriaOmission', 'preferenceReversal'):
        split(rng, p, m_now, keep_one=(name == 'criteriaOmission'))
    elif name == 'fatigue':
        if rng.random() < 0.7:
            p['function'] = 'const'
            p['params'] = {'value': rng.choice([0, PU // 4, PU // 2, PU, 2 * PU])}
        else:
            p['function'] = 'expFromZero'
            p['params'] = {'alpha': rng.choice([PU // 100, PU // 10, PU // 8, -(PU // 8)]), 'multiplier': rng.choice([PU // 2, PU, -(PU // 2)]),
                           'queryNumber': rng.choice([rng.randint(0, 20), rng.randint(-6, 6)])}
            for k_ in list(p['params']):       # parameters may be left out (they default to 0)
                if rng.random() < 0.2:
                    del p['params'][k_]
        p['randomSeed'] = rng.randint(0, 999)
        bounding(rng, p)
    elif name == 'criteriaConcealment':
        p['randomSeed'] = rng.randint(0, 999)
        if rng.random() < 0.6:
            p['newCriterionScaling'] = rng.choice([-PU, PU // 2, PU, 2 * PU])
        refcrit(rng, p)
        bounding(rng, p)
    elif name == 'criteriaMixing':
        p['randomSeed'] = rng.randint(0, 999)
        if rng.random() < 0.8:
            p['mixingRatio'] = rng.choice([0, PU // 4, PU // 2, PU])
        refcrit(rng, p)
    elif name == 'anchoring':
        k = rng.randint(1, min(3, len(ids)))
        p['anchoringAlternatives'] = [{'alternative': a, 'coefficient': rng.choice([PU // 2, PU, 2 * PU])} for a in rng.sample(ids, k)]

        def fun():
            r = rng.random()
            if r < 0.7:
                return {'function': 'linear', 'params': {'a': rng.choice([0, PU // 4, PU // 2, PU]), 'b': rng.choice([0, 0, PU // 8])}}
            return {'function': 'expFromZero', 'params': {'alpha': rng.choice([PU // 2, PU, -PU, -2 * PU]), 'multiplier': rng.choice([0, PU // 2, PU, -(PU // 2), -PU])}}
        p['loss'] = fun()
        p['gain'] = fun()
        p['referencePoints'] = {'function': rng.choice(['ideal', 'nadir'])}
        ap = {}
        if rng.random() < 0.5:
            a = {'function': 'inline', 'params': ap}
            if rng.random() < 0.5:
                ap['applyOnNotConsidered'] = True
        else:
            a = {'function': 'newCriterion', 'params': ap}
            ap['randomSeed'] = rng.randint(0, 999)
            refcrit(rng, ap)
        bounding(rng, ap)
        p['applier'] = a
    return {'name': name, 'props': p}


ADDING = ('criteriaConcealment', 'criteriaMixing')


def delta_m(b):
    """change of the number of criteria a bias makes (upper bound for omission planning)"""
    if b['name'] in ADDING:
        return 1
    if b['name'] == 'anchoring' and b['props']['applier']['function'] == 'newCriterion':
        return 1
    return 0


def pipeline_case(rng, method=None, seq=None, **kw):
    method = method or rng.choice(METHODS)
    req = gen_data(rng, method, **kw)
    m_now = len(req['criteria'])
    if seq is None:
        seq = [rng.choice(BIASES) for _ in range(rng.choice([1, 1, 2, 2, 3, 4]))]
    for name in seq:
        b = gen_bias(rng, name, req, m_now)
        if name == 'criteriaOmission':
            # keep at least one criterion: planned upper bound of the omitted count
            mx = b['props'].get('max', m_now)
            mn = b['props'].get('min', 0)
            if mn >= m_now:
                b['props']['min'] = m_now - 1
                b['props']['max'] = m_now - 1
            elif mx >= m_now:
                b['props']['max'] = max(mn, m_now - 1)
            m_now -= min(b['props']['max'], max(mn, m_now))  # conservative
            m_now = max(m_now, 1)
        if not (b['name'] == 'criteriaMixing' and m_now < 2):      # mixing does nothing when fewer than two criteria are left
            m_now += delta_m(b)
        pr = b['props']
        if 'randomSeed' in pr and rng.random() < 0.2:     # explicit 0 / left out
            if rng.random() < 0.5:
                pr['randomSeed'] = 0
            else:
                del pr['randomSeed']
        req['biases'].append(b)
    return req
