----------------------------- MODULE Utility -----------------------------
(* Defining formulas of the three utility methods, in integers of unit U.   *)
(* x : criterion -> value*U, w : criterion -> weight*U, ty : criterion -> "gain"/"cost".    *)
(* Results are value*U*U (callers divide by U).                                             *)
EXTENDS Num

Signed(x, ty, c) == IF ty[c] = "cost" THEN -x[c] ELSE x[c]

(* weighted sum: sum of weight x value, value negated for cost criteria *)
WS2(C, w, x, ty) == SumOver(C, LAMBDA c : w[c] * Signed(x, ty, c))
(* named deviation of the pinned implementation: the weight is never multiplied in *)
WSUnweighted(C, x, ty) == SumOver(C, LAMBDA c : Signed(x, ty, c))

(* OWA: ascending weights zipped with ascending values *)
OWA2(C, w, x) ==
  LET ws == SortedVals(C, w)
      xs == SortedVals(C, x)
  IN SumOver(1..Len(ws), LAMBDA k : ws[k] * xs[k])

(* Choquet: ascending distinct value levels (ties within `eps` grouped, the group takes the *)
(* value of its first = smallest member), increments times capacity of the remaining set.  *)
(* mu : SUBSET C \ {{}} -> capacity*U                                                       *)
RECURSIVE ChoquetFrom(_, _, _, _, _)
ChoquetFrom(Rem, prev, mu, x, eps) ==
  IF Rem = {} THEN 0
  ELSE LET lo  == SetMin({x[c] : c \in Rem})
           grp == {c \in Rem : x[c] - lo <= eps}
       IN mu[Rem] * (lo - prev) + ChoquetFrom(Rem \ grp, lo, mu, x, eps)
Choquet2(C, mu, x, eps) == ChoquetFrom(C, 0, mu, x, eps)

(* chained grouping exactly as the walk over the sorted list does it: a member joins the   *)
(* group while it is within eps of the group's FIRST member                                *)
=============================================================================
