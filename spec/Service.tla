------------------------------ MODULE Service ------------------------------
(* The HTTP service as a state machine: one process (`alive`), a process-wide *)
(* immutable registry of methods / listeners / biases, and per-request        *)
(* handlers that run concurrently.  A handler walks through the steps of one  *)
(* decision (the hook points of the implementation): Accept -> Bind ->        *)
(* Validate/Parse -> one step per enabled bias -> Evaluate -> Reply; a panic  *)
(* at any step is recovered into a 400 reply.  Requests are abstracted to     *)
(* records [id, class, steps, stateful] where class is                        *)
(*   "valid"      answered 200 with F(id)                                     *)
(*   "invalid"    violates a documented constraint: panics in Validate        *)
(*   "malformed"  not JSON / mistyped: rejected by Bind                       *)
(*   "diverging"  well-formed but makes the evaluation recurse without        *)
(*                progress (ELECTRE distillation function negative on [0,1]); *)
(*                the design requires Validate to reject it (GuardDiverging)  *)
(* Two named deviations model what the design forbids, so that TLC can show   *)
(* the invariants are sensitive to them: GuardDiverging = FALSE (the pinned   *)
(* tree before the fix) and SharedIterator = TRUE (a stateful level iterator  *)
(* cached in the shared registry instead of being created per request).       *)
EXTENDS Num, TLC

CONSTANTS Clients, Pool, GuardDiverging, SharedIterator,
          KeepSched    \* record the schedule history (off for liveness checking: keeps the state space finite)

VARIABLES alive,      \* the process answers
          registry,   \* process-wide prototypes; shared by all handlers, never written
          shared,     \* state wrongly kept in the registry when SharedIterator (owner of the cached iterator)
          h,          \* h[c] = handler state of client c
          answers,    \* history: request id -> set of <<status, body>> ever replied (across restarts)
          sched       \* history of steps <<client, pc>> (observation only)
vars == <<alive, registry, shared, h, answers, sched>>

Registry0 == [methods |-> 7, listeners |-> 7, biases |-> 6]
Idle == [pc |-> "idle", req |-> <<>>, step |-> 0, tainted |-> FALSE, status |-> 0, body |-> <<>>]

(* the sequential meaning of a request: what one isolated decision answers *)
F(r) == IF r.class = "valid" THEN [status |-> 200, body |-> <<"ranking", r.id>>]
        ELSE [status |-> 400, body |-> <<"error", r.id>>]

Init == /\ alive = TRUE /\ registry = Registry0 /\ shared = "nobody"
        /\ h = [c \in Clients |-> Idle] /\ answers = [i \in {r.id : r \in Pool} |-> {}] /\ sched = <<>>

Log(c, pc) == sched' = IF KeepSched THEN Append(sched, <<c, pc>>) ELSE sched

Accept(c, r) == /\ alive /\ h[c].pc = "idle"
                /\ h' = [h EXCEPT ![c] = [Idle EXCEPT !.pc = "accepted", !.req = r]]
                /\ Log(c, "accepted") /\ UNCHANGED <<alive, registry, shared, answers>>

Bind(c) == /\ alive /\ h[c].pc = "accepted"
           /\ h' = [h EXCEPT ![c].pc = IF h[c].req.class = "malformed" THEN "panicked" ELSE "bound"]
           /\ Log(c, "bound") /\ UNCHANGED <<alive, registry, shared, answers>>

Validate(c) ==
  /\ alive /\ h[c].pc = "bound"
  /\ LET r == h[c].req
         rejected == r.class = "invalid" \/ (r.class = "diverging" /\ GuardDiverging)
     IN h' = [h EXCEPT ![c].pc = IF rejected THEN "panicked" ELSE "parsed"]
  /\ Log(c, "parsed") /\ UNCHANGED <<alive, registry, shared, answers>>

(* one bias step; a stateful request (level iterator) is tainted if another handler owns the shared iterator *)
BiasStep(c) ==
  /\ alive /\ h[c].pc = "parsed" /\ h[c].step < h[c].req.steps
  /\ h' = [h EXCEPT ![c].step = @ + 1]
  /\ Log(c, "bias") /\ UNCHANGED <<alive, registry, shared, answers>>

Evaluate(c) ==
  /\ alive /\ h[c].pc = "parsed" /\ h[c].step = h[c].req.steps
  /\ IF h[c].req.class = "diverging"
     THEN alive' = FALSE /\ UNCHANGED <<h, shared>>                 \* fatal: no recover() can catch it
     ELSE /\ alive' = alive
          /\ IF SharedIterator /\ h[c].req.stateful
             THEN /\ shared' = c
                  /\ h' = [h EXCEPT ![c].pc = "evaluating", ![c].tainted = (shared # "nobody" /\ shared # c)]
             ELSE shared' = shared /\ h' = [h EXCEPT ![c].pc = "evaluating"]
  /\ Log(c, "evaluate") /\ UNCHANGED <<registry, answers>>

Finish(c) ==
  /\ alive /\ h[c].pc = "evaluating"
  /\ LET dirty == h[c].tainted \/ (SharedIterator /\ h[c].req.stateful /\ shared # c)
         f == F(h[c].req)
     IN h' = [h EXCEPT ![c].pc = "done", ![c].status = f.status,
                       ![c].body = IF dirty THEN <<"corrupted", h[c].req.id>> ELSE f.body]
  /\ shared' = IF shared = c THEN "nobody" ELSE shared
  /\ Log(c, "done") /\ UNCHANGED <<alive, registry, answers>>

Recover(c) == /\ alive /\ h[c].pc = "panicked"
              /\ h' = [h EXCEPT ![c].pc = "done", ![c].status = 400, ![c].body = <<"error", h[c].req.id>>]
              /\ Log(c, "recovered") /\ UNCHANGED <<alive, registry, shared, answers>>

Reply(c) == /\ alive /\ h[c].pc = "done"
            /\ answers' = [answers EXCEPT ![h[c].req.id] = @ \cup {<<h[c].status, h[c].body>>}]
            /\ h' = [h EXCEPT ![c] = Idle]
            /\ Log(c, "replied") /\ UNCHANGED <<alive, registry, shared>>

(* an operator restarts a dead process: everything but the history is reset *)
Restart == /\ ~alive /\ alive' = TRUE /\ h' = [c \in Clients |-> Idle] /\ shared' = "nobody"
           /\ Log("operator", "restart") /\ UNCHANGED <<registry, answers>>

Step(c) == Bind(c) \/ Validate(c) \/ BiasStep(c) \/ Evaluate(c) \/ Finish(c) \/ Recover(c) \/ Reply(c)
Next == (\E c \in Clients : (\E r \in Pool : Accept(c, r)) \/ Step(c)) \/ Restart
Spec == Init /\ [][Next]_vars
FairSpec == Spec /\ \A c \in Clients : WF_vars(Step(c))

(* ---------------- properties ---------------- *)
Survives == alive                                               \* C20: no request makes the process exit
RegistryUntouched == registry = Registry0                       \* C10: the shared registry is read-only
(* C10 / C02: whatever the interleaving and the history, a request is answered with F(request) *)
Isolation == \A c \in Clients : h[c].pc = "done" => <<h[c].status, h[c].body>> = <<F(h[c].req).status, F(h[c].req).body>>
Deterministic == \A i \in DOMAIN answers : Cardinality(answers[i]) <= 1
(* C20: 200 exactly for valid requests *)
StatusClass == \A c \in Clients : h[c].pc = "done" => (h[c].status = 200) = (h[c].req.class = "valid")
(* C20: every accepted request is eventually answered (checked under FairSpec) *)
Answered == \A c \in Clients : (h[c].pc = "accepted") ~> (h[c].pc = "idle")
=============================================================================
