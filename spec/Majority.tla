----------------------------- MODULE Majority -----------------------------
(* The majority heuristic as a state machine: a sequential pairwise          *)
(* tournament over the search order.  One step = one comparison of the       *)
(* running winner with the next alternative (Go: the loop body of            *)
(* Majority.Evaluate -> compare -> takeBetter -> DrawResolver.Resolve).      *)
(*                                                                           *)
(* ctx = [C |-> criteria set, w |-> weight per criterion, ty |-> type,       *)
(*        x |-> [alt -> [crit -> value]]]   (integers of the family unit)    *)
(* An entry is [id, value, cmp, cmpValue]; cmp = "" for the undefeated one.   *)
EXTENDS Num

MSigned(ctx, a, c) == IF ctx.ty[c] = "cost" THEN -ctx.x[a][c] ELSE ctx.x[a][c]

(* total weight of the criteria on which `a` is strictly better than `b` (ties: nobody scores) *)
MScoreOf(ctx, a, b) ==
  SumOver(ctx.C, LAMBDA c : IF MSigned(ctx, a, c) > MSigned(ctx, b, c) THEN ctx.w[c] ELSE 0)

MEntry(id, v, cmp, cv) == [id |-> id, value |-> v, cmp |-> cmp, cmpValue |-> cv]

MInit(order) == [order |-> order, i |-> 2, cur |-> order[1], curScore |-> 0,
                 buf |-> <<>>, groups |-> <<>>]
MDone(s) == s.i > Len(s.order)

(* pol \in {"allow","current","newer"}; "random" is resolved by the caller into current/newer *)
MStep(s, ctx, pol) ==
  LET another == s.order[s.i]
      s1 == MScoreOf(ctx, s.cur, another)
      s2 == MScoreOf(ctx, another, s.cur)
      dropNew == MEntry(another, s2, s.cur, s1)
      dropCur == MEntry(s.cur, s1, another, s2)
      currentWins == [s EXCEPT !.i = @ + 1, !.curScore = s1, !.groups = Append(@, <<dropNew>>)]
      newerWins(sc) == [s EXCEPT !.i = @ + 1, !.curScore = sc, !.cur = another,
                                 !.groups = Append(@, Append(s.buf, dropCur)), !.buf = <<>>]
  IN IF s1 = s2 THEN
          (IF pol = "allow" THEN [s EXCEPT !.i = @ + 1, !.curScore = s1, !.buf = Append(@, dropNew)]
           ELSE IF pol = "current" THEN currentWins
           ELSE newerWins(s1))
     ELSE IF s2 < s1 THEN currentWins
     ELSE newerWins(s2)

MIsDraw(s, ctx) == MScoreOf(ctx, s.cur, s.order[s.i]) = MScoreOf(ctx, s.order[s.i], s.cur)

(* drop-out groups, worst first, the last one holding the undefeated alternative *)
MFinish(s) == Append(s.groups, Append(s.buf, MEntry(s.cur, s.curScore, "", 0)))

(* run with a fixed policy, or with "random" resolved by ch[i] for the comparison at index i *)
RECURSIVE MRun(_, _, _, _)
MRun(s, ctx, pol, ch) ==
  IF MDone(s) THEN s
  ELSE MRun(MStep(s, ctx, IF pol = "random" THEN ch[s.i] ELSE pol), ctx, pol, ch)

(* ranking: groups reversed, entries inside a group reversed; links = next worse group + peers *)
GroupIds(g) == {g[k].id : k \in DOMAIN g}
RECURSIVE MFlat(_, _)
MFlat(groups, k) ==
  IF k = 0 THEN <<>>
  ELSE LET g == groups[k]
           worse == IF k > 1 THEN GroupIds(groups[k-1]) ELSE {}
           ents == [j \in 1..Len(g) |->
                      LET e == g[Len(g) + 1 - j]
                      IN [id |-> e.id, value |-> e.value, cmp |-> e.cmp, cmpValue |-> e.cmpValue,
                          links |-> worse \cup (GroupIds(g) \ {e.id})]]
       IN ents \o MFlat(groups, k - 1)
MRanking(groups) == MFlat(groups, Len(groups))

(* ---- invariants of the design (checked by MC_Majority in every state) ---- *)
MAllEntries(s) == LET RECURSIVE Cat(_)
                      Cat(k) == IF k = 0 THEN <<>> ELSE Cat(k-1) \o s.groups[k]
                  IN Cat(Len(s.groups)) \o s.buf
MSeen(s) == {s.order[k] : k \in 1..(s.i - 1)}

(* every alternative met so far is the running winner or dropped exactly once *)
MPartition(s) ==
  LET es == MAllEntries(s) IN
  /\ NoDup([k \in DOMAIN es |-> es[k].id])
  /\ {es[k].id : k \in DOMAIN es} \cup {s.cur} = MSeen(s)
  /\ s.cur \notin {es[k].id : k \in DOMAIN es}

(* a dropped entry records the opponent it met and exactly the two scores of that comparison, *)
(* and it did not score higher                                                                *)
MEntriesFaithful(s, ctx) ==
  LET es == MAllEntries(s) IN
  \A k \in DOMAIN es :
     /\ es[k].cmp \in MSeen(s) /\ es[k].cmp # es[k].id
     /\ es[k].value = MScoreOf(ctx, es[k].id, es[k].cmp)
     /\ es[k].cmpValue = MScoreOf(ctx, es[k].cmp, es[k].id)
     /\ es[k].value <= es[k].cmpValue
=============================================================================
