------------------------- MODULE Decision_proofs -------------------------
(* TLAPS proofs that the design-level invariants of Decision.tla that TLC    *)
(* checks for bias lists of length <= 2..3 over three criteria hold for      *)
(* EVERY request: any number of biases, any probabilities and draws, any     *)
(* non-empty criteria set, any pool of fresh ids.  (C07: Coherent,           *)
(* SplitStable, Persistence; C08: FireRule, P1Always, P0Never, Echo,         *)
(* SkipIsIdentity.)  Checked by `tlapm` from bin/check (family pipeline).    *)
EXTENDS Decision, TLAPS

ASSUME Crit0NonEmpty == Crit0 # {}

DSpec(r) == DInit(r) /\ [][DNext]_vars

(* bookkeeping that makes the C08 invariants inductive *)
Book == /\ fired \in Seq(BOOLEAN)
        /\ i = Len(fired) + 1
        /\ Len(reports) = Len(fired)
        /\ pc \in {"validate", "parse", "bias", "respond", "done"}

(* C08 echo: the report of every processed position names the bias of that position; a skipped bias reports null *)
Echo == \A k \in 1..Len(reports) : reports[k].name = Enabled(req)[k].name /\ (~fired[k] => reports[k].props = "null")

Inv == Coherent /\ SplitStable /\ Book /\ FireRule

LEMMA InitInv == \A r : DInit(r) => Inv
  BY Crit0NonEmpty DEF DInit, Inv, Coherent, SplitStable, Book, FireRule

LEMMA StepInv == Inv /\ [DNext]_vars => Inv'
<1> SUFFICES ASSUME Inv, [DNext]_vars PROVE Inv' OBVIOUS
<1>1 CASE Validate BY <1>1 DEF Validate, Inv, Coherent, SplitStable, Book, FireRule
<1>2 CASE Parse BY <1>2 DEF Parse, Inv, Coherent, SplitStable, Book, FireRule
<1>3 CASE Skip
  <2>1 Coherent' /\ SplitStable' BY <1>3 DEF Skip, Inv, Coherent, SplitStable
  <2>2 Book' BY <1>3 DEF Skip, Inv, Book
  <2>3 FireRule'
    <3> SUFFICES ASSUME NEW k \in DOMAIN fired' PROVE fired'[k] = (Enabled(req')[k].p > req'.draws[k]) BY DEF FireRule
    <3>1 req' = req /\ fired' = Append(fired, FALSE) /\ ~Fires(req, i) /\ i = Len(fired) + 1 BY <1>3 DEF Skip, Inv, Book
    <3>2 CASE k = Len(fired) + 1 BY <3>1, <3>2 DEF Fires, Inv, Book
    <3>3 CASE k \in DOMAIN fired BY <3>1, <3>3 DEF Inv, Book, FireRule
    <3> QED BY <3>1, <3>2, <3>3 DEF Inv, Book
  <2> QED BY <2>1, <2>2, <2>3 DEF Inv
<1>4 CASE Apply
  <2>1 Coherent' /\ SplitStable' BY <1>4 DEF Apply, Inv, Coherent, SplitStable
  <2>2 Book' BY <1>4 DEF Apply, Inv, Book
  <2>3 FireRule'
    <3> SUFFICES ASSUME NEW k \in DOMAIN fired' PROVE fired'[k] = (Enabled(req')[k].p > req'.draws[k]) BY DEF FireRule
    <3>1 req' = req /\ fired' = Append(fired, TRUE) /\ Fires(req, i) /\ i = Len(fired) + 1 BY <1>4 DEF Apply, Inv, Book
    <3>2 CASE k = Len(fired) + 1 BY <3>1, <3>2 DEF Fires, Inv, Book
    <3>3 CASE k \in DOMAIN fired BY <3>1, <3>3 DEF Inv, Book, FireRule
    <3> QED BY <3>1, <3>2, <3>3 DEF Inv, Book
  <2> QED BY <2>1, <2>2, <2>3 DEF Inv
<1>5 CASE Evaluate BY <1>5 DEF Evaluate, Inv, Coherent, SplitStable, Book, FireRule
<1>6 CASE Respond BY <1>6 DEF Respond, Inv, Coherent, SplitStable, Book, FireRule
<1>7 CASE UNCHANGED vars BY <1>7 DEF vars, Inv, Coherent, SplitStable, Book, FireRule
<1> QED BY <1>1, <1>2, <1>3, <1>4, <1>5, <1>6, <1>7 DEF DNext

THEOREM Safety == \A r : DSpec(r) => []Inv
<1> SUFFICES ASSUME NEW r PROVE DSpec(r) => []Inv OBVIOUS
<1>1 DInit(r) => Inv BY InitInv
<1>2 Inv /\ [DNext]_vars => Inv' BY StepInv
<1> QED BY <1>1, <1>2, PTL DEF DSpec

(* the C08 corollaries TLC checks as separate invariants *)
(* a draw stands for an interval [d/4, (d+1)/4) of [0,1): d \in 0..3 is the domain assumption *)
LEMMA Corollaries == FireRule /\ (\A k \in DOMAIN fired : req.draws[k] \in 0..3) => P1Always /\ P0Never
  BY DEF FireRule, P1Always, P0Never

(* C08 echo, inductive relative to the bookkeeping *)
LEMMA EchoInit == \A r : DInit(r) => Echo
  BY DEF DInit, Echo

LEMMA EchoStep == Book /\ Echo /\ [DNext]_vars => Echo'
<1> SUFFICES ASSUME Book, Echo, [DNext]_vars PROVE Echo' OBVIOUS
<1>1 CASE Validate BY <1>1 DEF Validate, Echo
<1>2 CASE Parse BY <1>2 DEF Parse, Echo
<1>3 CASE Skip
  <2>1 /\ reports' = Append(reports, [name |-> Enabled(req)[i].name, props |-> "null"]) /\ fired' = Append(fired, FALSE)
       /\ req' = req /\ i = Len(fired) + 1 /\ Len(reports) = Len(fired) /\ fired \in Seq(BOOLEAN)
       BY <1>3 DEF Skip, Book
  <2> QED BY <2>1 DEF Echo
<1>4 CASE Apply
  <2>1 /\ \E x : reports' = Append(reports, [name |-> Enabled(req)[i].name, props |-> x]) /\ fired' = Append(fired, TRUE)
       /\ req' = req /\ i = Len(fired) + 1 /\ Len(reports) = Len(fired) /\ fired \in Seq(BOOLEAN)
       BY <1>4 DEF Apply, Book
  <2> QED BY <2>1 DEF Echo
<1>5 CASE Evaluate BY <1>5 DEF Evaluate, Echo
<1>6 CASE Respond BY <1>6 DEF Respond, Echo
<1>7 CASE UNCHANGED vars BY <1>7 DEF vars, Echo
<1> QED BY <1>1, <1>2, <1>3, <1>4, <1>5, <1>6, <1>7 DEF DNext

THEOREM SafetyEcho == \A r : DSpec(r) => [](Inv /\ Echo)
<1> SUFFICES ASSUME NEW r PROVE DSpec(r) => [](Inv /\ Echo) OBVIOUS
<1>1 DInit(r) => Inv /\ Echo BY InitInv, EchoInit
<1>2 (Inv /\ Echo) /\ [DNext]_vars => (Inv /\ Echo)' BY StepInv, EchoStep DEF Inv
<1> QED BY <1>1, <1>2, PTL DEF DSpec

(* C07 action property: rewritten values of surviving criteria stay rewritten *)
LEMMA PersistenceStep == [DNext]_vars => (touched \cap crit' \subseteq touched')
<1> SUFFICES ASSUME [DNext]_vars PROVE touched \cap crit' \subseteq touched' OBVIOUS
<1>1 CASE Validate BY <1>1 DEF Validate
<1>2 CASE Parse BY <1>2 DEF Parse
<1>3 CASE Skip BY <1>3 DEF Skip
<1>4 CASE Apply BY <1>4 DEF Apply
<1>5 CASE Evaluate BY <1>5 DEF Evaluate
<1>6 CASE Respond BY <1>6 DEF Respond
<1>7 CASE UNCHANGED vars BY <1>7 DEF vars
<1> QED BY <1>1, <1>2, <1>3, <1>4, <1>5, <1>6, <1>7 DEF DNext

(* C08 action property: while the next enabled bias does not fire, no step changes the data *)
LEMMA SkipIdentityStep ==
  [DNext]_vars => ((pc = "bias" /\ i <= Len(Enabled(req)) /\ ~Fires(req, i)) => UNCHANGED <<crit, vcover, pcover, cons, ncons, touched>>)
<1> SUFFICES ASSUME [DNext]_vars, pc = "bias", i <= Len(Enabled(req)), ~Fires(req, i)
             PROVE UNCHANGED <<crit, vcover, pcover, cons, ncons, touched>> OBVIOUS
<1>1 CASE Validate BY <1>1 DEF Validate
<1>2 CASE Parse BY <1>2 DEF Parse
<1>3 CASE Skip BY <1>3 DEF Skip
<1>4 CASE Apply BY <1>4 DEF Apply
<1>5 CASE Evaluate BY <1>5 DEF Evaluate
<1>6 CASE Respond BY <1>6 DEF Respond
<1>7 CASE UNCHANGED vars BY <1>7 DEF vars
<1> QED BY <1>1, <1>2, <1>3, <1>4, <1>5, <1>6, <1>7 DEF DNext
==========================================================================
