------------------------------- MODULE Num -------------------------------
(* Proof-time stand-in for spec/Num.tla: tlapm 1.6 cannot load RECURSIVE     *)
(* operators (Num's SortedVals, PermsOf, GCD2 and the CommunityModules it     *)
(* extends).  The modules proved here use only the standard modules below;   *)
(* an operator of the real Num they started to use would be reported by       *)
(* tlapm as undefined, so the stand-in cannot silently change a meaning.      *)
EXTENDS Integers, Sequences, FiniteSets
NAbs(x) == IF x < 0 THEN -x ELSE x
NMin(a, b) == IF a <= b THEN a ELSE b
NMax(a, b) == IF a >= b THEN a ELSE b
SeqSet(s) == {s[i] : i \in DOMAIN s}
NoDup(s) == \A i, j \in DOMAIN s : i # j => s[i] # s[j]
Has(r, k) == k \in DOMAIN r
=============================================================================
