-------------------------- MODULE Service_proofs --------------------------
(* TLAPS proofs for Service.tla with the design's settings (GuardDiverging = *)
(* TRUE, SharedIterator = FALSE): Survives, RegistryUntouched, Isolation,    *)
(* StatusClass and determinism of the answers hold for ANY number of         *)
(* clients, ANY pool of requests and every interleaving of handler steps -   *)
(* TLC checks them for two / three clients and a pool of five requests.      *)
EXTENDS Service, TLAPS

Classes == {"valid", "invalid", "malformed", "diverging"}
ASSUME Design == GuardDiverging = TRUE /\ SharedIterator = FALSE
ASSUME PoolType == \A r \in Pool : r.class \in Classes /\ r.steps \in Nat
ASSUME IdsIdentify == \A r1, r2 \in Pool : r1.id = r2.id => r1.class = r2.class

PCs == {"idle", "accepted", "bound", "parsed", "evaluating", "panicked", "done"}
Bodies == {<<>>} \cup ({"ranking", "error", "corrupted"} \X {r.id : r \in Pool})
HRec == [pc : PCs, req : Pool \cup {<<>>}, step : Nat, tainted : BOOLEAN, status : {0, 200, 400}, body : Bodies]
Ans(r) == <<F(r).status, F(r).body>>

Good(rec) ==
  /\ rec.pc # "idle" => rec.req \in Pool
  /\ ~rec.tainted
  /\ rec.pc = "bound" => rec.req.class # "malformed"
  /\ rec.pc \in {"parsed", "evaluating"} => rec.req.class = "valid"
  /\ rec.pc = "panicked" => rec.req.class # "valid"
  /\ rec.pc = "done" => <<rec.status, rec.body>> = Ans(rec.req)

AnsOK == /\ DOMAIN answers = {r.id : r \in Pool}
         /\ \A id \in DOMAIN answers : \A x \in answers[id] : \E r \in Pool : r.id = id /\ x = Ans(r)

Inv ==
  /\ alive
  /\ registry = Registry0
  /\ h \in [Clients -> HRec]
  /\ \A c \in Clients : Good(h[c])
  /\ AnsOK

LEMMA IdleRec == Idle \in HRec /\ Good(Idle)
<1>0 <<>> \in Bodies BY DEF Bodies
<1>1 Idle \in HRec BY <1>0 DEF Idle, HRec, PCs
<1>2 Good(Idle) BY DEF Idle, Good
<1> QED BY <1>1, <1>2

LEMMA InitInv == Init => Inv
<1>1 Init => alive /\ registry = Registry0 /\ h \in [Clients -> HRec] BY IdleRec DEF Init
<1>2 Init => \A c \in Clients : h[c] = Idle BY DEF Init
<1>3 Init => DOMAIN answers = {r.id : r \in Pool} BY DEF Init
<1>4 Init => \A id \in DOMAIN answers : answers[id] = {} BY DEF Init
<1> QED BY <1>1, <1>2, <1>3, <1>4, IdleRec DEF Inv, AnsOK

(* replacing one handler record by a good one keeps the handler part of the invariant *)
LEMMA Upd == ASSUME Inv, NEW c \in Clients, NEW nr \in HRec, Good(nr), h' = [h EXCEPT ![c] = nr],
                    alive' = alive, registry' = registry, answers' = answers
             PROVE Inv'
<1>1 h' \in [Clients -> HRec] BY DEF Inv
<1>2 \A d \in Clients : h'[d] = IF d = c THEN nr ELSE h[d] BY DEF Inv
<1>3 \A d \in Clients : Good(h'[d]) BY <1>2 DEF Inv
<1> QED BY <1>1, <1>3 DEF Inv, AnsOK

LEMMA StepInv == Inv /\ [Next]_vars => Inv'
<1> SUFFICES ASSUME Inv, [Next]_vars PROVE Inv' OBVIOUS
<1>1 ASSUME NEW c \in Clients, NEW r \in Pool, Accept(c, r) PROVE Inv'
  <2> DEFINE nr == [Idle EXCEPT !.pc = "accepted", !.req = r]
  <2>1z <<>> \in Bodies BY DEF Bodies
  <2>1a nr \in HRec BY <2>1z DEF Idle, HRec, PCs
  <2>1b Good(nr) BY DEF Idle, Good
  <2>1 nr \in HRec /\ Good(nr) BY <2>1a, <2>1b
  <2>2 h' = [h EXCEPT ![c] = nr] /\ alive' = alive /\ registry' = registry /\ answers' = answers BY <1>1 DEF Accept
  <2> HIDE DEF nr
  <2> QED BY <2>1, <2>2, Upd
<1>2 ASSUME NEW c \in Clients, Bind(c) PROVE Inv'
  <2> DEFINE nr == [h[c] EXCEPT !.pc = IF h[c].req.class = "malformed" THEN "panicked" ELSE "bound"]
  <2>0 h[c] \in HRec /\ Good(h[c]) /\ h[c].pc = "accepted" BY <1>2 DEF Inv, Bind
  <2>1 nr \in HRec /\ Good(nr) BY <2>0 DEF HRec, PCs, Good
  <2>2 h' = [h EXCEPT ![c] = nr] /\ alive' = alive /\ registry' = registry /\ answers' = answers BY <1>2 DEF Bind, Inv
  <2> HIDE DEF nr
  <2> QED BY <2>1, <2>2, Upd
<1>3 ASSUME NEW c \in Clients, Validate(c) PROVE Inv'
  <2> DEFINE rj == h[c].req.class = "invalid" \/ (h[c].req.class = "diverging" /\ GuardDiverging)
  <2> DEFINE nr == [h[c] EXCEPT !.pc = IF rj THEN "panicked" ELSE "parsed"]
  <2>0 h[c] \in HRec /\ Good(h[c]) /\ h[c].pc = "bound" BY <1>3 DEF Inv, Validate
  <2>1 nr \in HRec /\ Good(nr) BY <2>0, Design, PoolType DEF HRec, PCs, Good, Classes
  <2>2 h' = [h EXCEPT ![c] = nr] /\ alive' = alive /\ registry' = registry /\ answers' = answers BY <1>3 DEF Validate, Inv
  <2> HIDE DEF nr, rj
  <2> QED BY <2>1, <2>2, Upd
<1>4 ASSUME NEW c \in Clients, BiasStep(c) PROVE Inv'
  <2> DEFINE nr == [h[c] EXCEPT !.step = @ + 1]
  <2>0 h[c] \in HRec /\ Good(h[c]) /\ h[c].pc = "parsed" BY <1>4 DEF Inv, BiasStep
  <2>1 nr \in HRec /\ Good(nr) BY <2>0 DEF HRec, PCs, Good
  <2>2 h' = [h EXCEPT ![c] = nr] /\ alive' = alive /\ registry' = registry /\ answers' = answers BY <1>4 DEF BiasStep, Inv
  <2> HIDE DEF nr
  <2> QED BY <2>1, <2>2, Upd
<1>5 ASSUME NEW c \in Clients, Evaluate(c) PROVE Inv'
  <2> DEFINE nr == [h[c] EXCEPT !.pc = "evaluating"]
  <2>0 h[c] \in HRec /\ Good(h[c]) /\ h[c].pc = "parsed" BY <1>5 DEF Inv, Evaluate
  <2>1 nr \in HRec /\ Good(nr) BY <2>0 DEF HRec, PCs, Good
  <2>2 h[c].req.class # "diverging" BY <2>0 DEF Good
  <2>3 h' = [h EXCEPT ![c] = nr] /\ alive' = alive /\ registry' = registry /\ answers' = answers BY <1>5, <2>2, Design DEF Evaluate, Inv
  <2> HIDE DEF nr
  <2> QED BY <2>1, <2>3, Upd
<1>6 ASSUME NEW c \in Clients, Finish(c) PROVE Inv'
  <2> DEFINE nr == [h[c] EXCEPT !.pc = "done", !.status = F(h[c].req).status, !.body = F(h[c].req).body]
  <2>0 h[c] \in HRec /\ Good(h[c]) /\ h[c].pc = "evaluating" BY <1>6 DEF Inv, Finish
  <2>1 h[c].req \in Pool /\ h[c].req.class = "valid" /\ ~h[c].tainted BY <2>0 DEF Good
  <2>2a F(h[c].req).status = 200 /\ F(h[c].req).body = <<"ranking", h[c].req.id>> BY <2>1 DEF F
  <2>2b <<"ranking", h[c].req.id>> \in Bodies BY <2>1 DEF Bodies
  <2>2 nr \in HRec BY <2>0, <2>2a, <2>2b DEF HRec, PCs
  <2>3 Good(nr) BY <2>0, <2>1 DEF HRec, Good, Ans
  <2>4 h' = [h EXCEPT ![c] = nr] /\ alive' = alive /\ registry' = registry /\ answers' = answers BY <1>6, <2>1, Design DEF Finish, Inv
  <2> HIDE DEF nr
  <2> QED BY <2>2, <2>3, <2>4, Upd
<1>7 ASSUME NEW c \in Clients, Recover(c) PROVE Inv'
  <2> DEFINE nr == [h[c] EXCEPT !.pc = "done", !.status = 400, !.body = <<"error", h[c].req.id>>]
  <2>0 h[c] \in HRec /\ Good(h[c]) /\ h[c].pc = "panicked" BY <1>7 DEF Inv, Recover
  <2>1 h[c].req \in Pool /\ h[c].req.class # "valid" BY <2>0 DEF Good
  <2>2b <<"error", h[c].req.id>> \in Bodies BY <2>1 DEF Bodies
  <2>2 nr \in HRec BY <2>0, <2>2b DEF HRec, PCs
  <2>3 Good(nr) BY <2>0, <2>1 DEF HRec, Good, Ans, F
  <2>4 h' = [h EXCEPT ![c] = nr] /\ alive' = alive /\ registry' = registry /\ answers' = answers BY <1>7 DEF Recover, Inv
  <2> HIDE DEF nr
  <2> QED BY <2>2, <2>3, <2>4, Upd
<1>8 ASSUME NEW c \in Clients, Reply(c) PROVE Inv'
  <2>0 h[c] \in HRec /\ Good(h[c]) /\ h[c].pc = "done" BY <1>8 DEF Inv, Reply
  <2>1 h[c].req \in Pool /\ <<h[c].status, h[c].body>> = Ans(h[c].req) BY <2>0 DEF Good
  <2>2 h' = [h EXCEPT ![c] = Idle] /\ alive' = alive /\ registry' = registry BY <1>8 DEF Reply
  <2>3 h' \in [Clients -> HRec] BY <2>2, IdleRec DEF Inv
  <2>4 \A d \in Clients : h'[d] = IF d = c THEN Idle ELSE h[d] BY <2>2 DEF Inv
  <2>5 \A d \in Clients : Good(h'[d]) BY <2>4, IdleRec DEF Inv
  <2>6 answers' = [answers EXCEPT ![h[c].req.id] = @ \cup {<<h[c].status, h[c].body>>}] BY <1>8 DEF Reply
  <2>7 AnsOK' BY <2>6, <2>1 DEF Inv, AnsOK
  <2> QED BY <2>2, <2>3, <2>5, <2>7 DEF Inv
<1>9 CASE Restart BY <1>9 DEF Restart, Inv
<1>10 CASE UNCHANGED vars BY <1>10 DEF vars, Inv, AnsOK
<1> QED BY <1>1, <1>2, <1>3, <1>4, <1>5, <1>6, <1>7, <1>8, <1>9, <1>10 DEF Next, Step

LEMMA InvImplies == Inv => /\ Survives /\ RegistryUntouched /\ Isolation /\ StatusClass
                           /\ \A id \in DOMAIN answers : \A x, y \in answers[id] : x = y
<1> SUFFICES ASSUME Inv PROVE Survives /\ RegistryUntouched /\ Isolation /\ StatusClass
                                /\ \A id \in DOMAIN answers : \A x, y \in answers[id] : x = y OBVIOUS
<1>1 Survives /\ RegistryUntouched BY DEF Inv, Survives, RegistryUntouched
<1>2 \A c \in Clients : h[c].pc = "done" => h[c].req \in Pool /\ <<h[c].status, h[c].body>> = Ans(h[c].req) BY DEF Inv, Good
<1>3 Isolation BY <1>2 DEF Isolation, Ans
<1>4 StatusClass BY <1>2, PoolType DEF StatusClass, Ans, F, Classes
<1>5 \A id \in DOMAIN answers : \A x, y \in answers[id] : x = y BY IdsIdentify DEF Inv, AnsOK, Ans, F
<1> QED BY <1>1, <1>3, <1>4, <1>5

THEOREM Safety == Spec => [](Survives /\ RegistryUntouched /\ Isolation /\ StatusClass)
<1>1 Init => Inv BY InitInv
<1>2 Inv /\ [Next]_vars => Inv' BY StepInv
<1>3 Inv => Survives /\ RegistryUntouched /\ Isolation /\ StatusClass BY InvImplies
<1> QED BY <1>1, <1>2, <1>3, PTL DEF Spec
===========================================================================
