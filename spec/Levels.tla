------------------------------ MODULE Levels ------------------------------
(* Generated aspiration levels.  A level is a ratio r of a criterion's value *)
(* range measured from the worst end.  Ratios are integers over LD (r/LD);   *)
(* coefficients are small rationals cn/cd.  The series is a state machine    *)
(* r' = Upd(r) while HasNext(r) - exactly the iterator protocol of the Go    *)
(* code (Initialize, HasNext, Next) - unrolled by Series.                    *)
EXTENDS Num

LD == 65536

IncModes == {"idealMultipliedCoefficient", "idealAdditiveCoefficient"}
DecModes == {"idealMultipliedCoefficient", "idealSubtractiveCoefficient"}

(* dir \in {"inc","dec"}; cn/cd the coefficient *)
LUpd(dir, mode, r, cn, cd) ==
  IF dir = "inc" THEN
     (IF mode = "idealMultipliedCoefficient"
      THEN NMin(r + (LD * cn) \div cd + (r * cn) \div cd, LD)        \* (1+r)(1+c)-1 = r + c + rc
      ELSE NMin(r + (LD * cn) \div cd, LD))
  ELSE
     (IF mode = "idealMultipliedCoefficient" THEN (r * cn) \div cd
      ELSE NMax(r - (LD * cn) \div cd, 0))

LUpdExact(dir, mode, r, cn, cd) ==
  /\ (LD * cn) % cd = 0
  /\ (mode = "idealMultipliedCoefficient" => (r * cn) % cd = 0)

LHasNext(dir, r, lo, hi) == IF dir = "inc" THEN r < hi ELSE r > lo
LInitial(dir, lo, hi) == IF dir = "inc" THEN lo ELSE hi

(* the whole series of ratios; `fuel` bounds the unrolling (the design's variant function   *)
(* shows every in-domain series ends: inc ratios strictly grow until 1 >= max, dec ratios   *)
(* strictly shrink; MC_Levels checks this)                                                  *)
RECURSIVE LSeriesFrom(_, _, _, _, _, _, _, _)
LSeriesFrom(dir, mode, r, lo, hi, cn, cd, fuel) ==
  IF fuel = 0 \/ ~LHasNext(dir, r, lo, hi) THEN <<>>
  ELSE <<r>> \o LSeriesFrom(dir, mode, LUpd(dir, mode, r, cn, cd), lo, hi, cn, cd, fuel - 1)
LSeries(dir, mode, lo, hi, cn, cd) == LSeriesFrom(dir, mode, LInitial(dir, lo, hi), lo, hi, cn, cd, 64)

RECURSIVE LSeriesExactFrom(_, _, _, _, _, _, _, _)
LSeriesExactFrom(dir, mode, r, lo, hi, cn, cd, fuel) ==
  IF fuel = 0 THEN FALSE
  ELSE IF ~LHasNext(dir, r, lo, hi) THEN TRUE
  ELSE LUpdExact(dir, mode, r, cn, cd)
       /\ LSeriesExactFrom(dir, mode, LUpd(dir, mode, r, cn, cd), lo, hi, cn, cd, fuel - 1)
LSeriesExact(dir, mode, lo, hi, cn, cd) ==
  LSeriesExactFrom(dir, mode, LInitial(dir, lo, hi), lo, hi, cn, cd, 64)

(* documented parameter domains; anything else is rejected *)
LParamsValid(dir, lo, hi, cn, cd) ==
  /\ cn > 0 /\ cn < cd
  /\ IF dir = "inc" THEN lo >= 0 /\ lo <= LD /\ hi >= 0 /\ hi <= LD
     ELSE lo > 0 /\ lo <= LD /\ hi > 0 /\ hi <= LD

(* threshold of one criterion at ratio r: min + r*range for gain, max - r*range for cost *)
LThreshold(r, ty, rmin, rmax) ==
  IF ty = "cost" THEN rmax - ((rmax - rmin) * r) \div LD ELSE rmin + ((rmax - rmin) * r) \div LD
LThresholdExact(r, rmin, rmax) == ((rmax - rmin) * r) % LD = 0

(* value range of a criterion: declared, else observed over ALL known alternatives.          *)
(* cr = criterion record [id, type, range?], all = sequence of alternative records            *)
LRange(cr, all) ==
  IF Has(cr, "range") THEN cr.range
  ELSE [min |-> SetMin({all[k].criteria[cr.id] : k \in DOMAIN all}),
        max |-> SetMax({all[k].criteria[cr.id] : k \in DOMAIN all})]

(* generated levels as a sequence of threshold maps [criterion id -> threshold] *)
LGenerated(dir, mode, lo, hi, cn, cd, crits, all) ==
  LET rs == LSeries(dir, mode, lo, hi, cn, cd)
      ids == {crits[k].id : k \in DOMAIN crits}
      cof(c) == crits[CHOOSE k \in DOMAIN crits : crits[k].id = c]
  IN [k \in DOMAIN rs |->
        [c \in ids |-> LET rg == LRange(cof(c), all) IN LThreshold(rs[k], cof(c).type, rg.min, rg.max)]]

LGeneratedExact(dir, mode, lo, hi, cn, cd, crits, all) ==
  LET rs == LSeries(dir, mode, lo, hi, cn, cd) IN
  /\ LSeriesExact(dir, mode, lo, hi, cn, cd)
  /\ \A k \in DOMAIN rs : \A j \in DOMAIN crits :
        LET rg == LRange(crits[j], all) IN LThresholdExact(rs[k], rg.min, rg.max)
=============================================================================
