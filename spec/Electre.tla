------------------------------ MODULE Electre ------------------------------
(* ELECTRE III in exact rationals: credibility matrix from per-criterion     *)
(* constant thresholds q < p < v and weights k, then the two distillations.   *)
(* The distillation is given both as a recursive definition (Distil, used on  *)
(* the trace side) and - in MC_Electre - as a step machine (Cut / Classify).  *)
(* This is the textbook procedure phrased over SETS of alternatives; it is    *)
(* deliberately not a transcription of distilation.go's index arithmetic.     *)
EXTENDS Rat

(* ---------------- stage 1: credibility ---------------- *)
(* cr = [ty, k, q, p, v, hasq, hasp, hasv] per criterion; values xa, xb integers; thresholds  *)
(* integers in the same unit.  `tieConcordant` is the property's rule "not worse => fully     *)
(* concordant"; FALSE reproduces the pinned implementation's deviation (a tie on a criterion  *)
(* without q and p scores as not concordant) and is used only to recognise that known finding *)
ConcDisc(cr, xa, xb, tieConcordant) ==
  LET sa == IF cr.ty = "cost" THEN -xa ELSE xa
      sb == IF cr.ty = "cost" THEN -xb ELSE xb
      diff == sb - sa
      q == IF cr.hasq THEN cr.q ELSE 0
      p == IF cr.hasp THEN cr.p ELSE 0
  IN IF sa > sb \/ (tieConcordant /\ sa = sb) THEN [c |-> ROne, d |-> RZero]
     ELSE IF cr.hasq /\ cr.q >= diff THEN [c |-> ROne, d |-> RZero]
     ELSE IF cr.hasp /\ cr.p >= diff THEN [c |-> RNorm(cr.p - diff, cr.p - q), d |-> RZero]
     ELSE IF cr.hasv /\ cr.v >= diff THEN [c |-> RZero, d |-> RNorm(diff - p, cr.v - p)]
     ELSE IF cr.hasv THEN [c |-> RZero, d |-> ROne]
     ELSE [c |-> RZero, d |-> RZero]

(* crs: criterion id -> cr; x: alt -> crit -> value; order irrelevant (exact arithmetic) *)
RECURSIVE RSumOver(_, _)
RSumOver(S, f) == IF S = {} THEN RZero
                  ELSE LET e == CHOOSE e \in S : TRUE IN RAdd(f[e], RSumOver(S \ {e}, f))
RECURSIVE RProdOver(_, _)
RProdOver(S, f) == IF S = {} THEN ROne
                   ELSE LET e == CHOOSE e \in S : TRUE IN RMul(f[e], RProdOver(S \ {e}, f))

Cred(crs, x, a, b, tc) ==
  IF a = b THEN ROne
  ELSE LET C == DOMAIN crs
           cd == [j \in C |-> ConcDisc(crs[j], x[a][j], x[b][j], tc)]
           K == SumOver(C, LAMBDA j : crs[j].k)
           conc == RDiv(RSumOver(C, [j \in C |-> RMul(R(crs[j].k), cd[j].c)]), R(K))
           veto == {j \in C : RGt(cd[j].d, conc)}
       IN IF veto = {} THEN conc
          ELSE RMul(conc, RProdOver(veto, [j \in veto |-> RDiv(RSub(ROne, cd[j].d), RSub(ROne, conc))]))

CredMatrix(crs, x, A, tc) == [a \in A |-> [b \in A |-> Cred(crs, x, a, b, tc)]]

(* float exactness of stage 1 (R5): the IEEE computation of one entry agrees with the exact rational when every    *)
(* intermediate quantity - partial concordances, the global concordance, the applied discordances and their       *)
(* factors - is a dyadic rational (sums, products and representable quotients of doubles are then exact);          *)
(* otherwise the entry may be off by rounding even if its exact value happens to be dyadic (2/3 x 1/4 / (1/3))    *)
CredInexact(crs, x, a, b, tc) ==
  IF a = b THEN FALSE
  ELSE LET C == DOMAIN crs
           cd == [j \in C |-> ConcDisc(crs[j], x[a][j], x[b][j], tc)]
           K == SumOver(C, LAMBDA j : crs[j].k)
           conc == RDiv(RSumOver(C, [j \in C |-> RMul(R(crs[j].k), cd[j].c)]), R(K))
           veto == {j \in C : RGt(cd[j].d, conc)}
       IN \/ \E j \in C : ~RIsDyadic(cd[j].c) \/ ~RIsDyadic(cd[j].d)
          \/ ~RIsDyadic(conc)
          \/ \E j \in veto : ~RIsDyadic(RDiv(RSub(ROne, cd[j].d), RSub(ROne, conc)))
InexactMatrix(crs, x, A, tc) == [a \in A |-> [b \in A |-> CredInexact(crs, x, a, b, tc)]]

(* ---------------- stage 2: distillation ---------------- *)
(* M : A -> A -> rational (diagonal ignored), s = [a, b] rationals: s(x) = a*x + b;          *)
(* dir = "asc" (best qualification first) or "desc" (worst first).                            *)
SVal(s, x) == RAdd(RMul(s.a, x), s.b)
Pairs(A) == {e \in A \X A : e[1] # e[2]}
OffDiag(M, A) == {M[e[1]][e[2]] : e \in Pairs(A)} \cup {RZero}   \* the diagonal counts as 0
MaxCred(M, A) == RMaxSet(OffDiag(M, A))
NextCut(M, A, s, lam) ==
  LET thr == RSub(lam, SVal(s, lam)) IN RMaxSet({v \in OffDiag(M, A) : RLt(v, thr)} \cup {RZero})
(* W[a][b] = M[b][a] + s(M[a][b]) is what M[a][b] must exceed for "a outranks b"; it does not   *)
(* depend on the cut, so it is tabulated once per matrix: P = [M, W]                           *)
Prep(M, A, s) == [M |-> M, W |-> [a \in A |-> [b \in A |-> IF a = b THEN ROne ELSE RAdd(M[b][a], SVal(s, M[a][b]))]]]
Outranks(P, cut, a, b) == a # b /\ RGt(P.M[a][b], cut) /\ RGt(P.M[a][b], P.W[a][b])
Qual(P, A, cut, a) ==
  Cardinality({b \in A : Outranks(P, cut, a, b)}) - Cardinality({b \in A : Outranks(P, cut, b, a)})
BestSet(P, A, cut, dir) ==
  LET q == [a \in A |-> Qual(P, A, cut, a)] IN
  IF dir = "asc" THEN {a \in A : \A b \in A : q[b] <= q[a]} ELSE {a \in A : \A b \in A : q[b] >= q[a]}

(* positions of the members of A, 0 = not classified by this call *)
RECURSIVE DistilP(_, _, _, _, _, _, _)
DistilP(P, A, s, lam, pos, dir, inner) ==
  IF RIsZero(lam) THEN [a \in A |-> pos]
  ELSE
    LET cut == NextCut(P.M, A, s, lam)
        B == BestSet(P, A, cut, dir)
        posB == IF Cardinality(B) > 1 /\ ~RIsZero(cut)
                THEN DistilP(P, B, s, cut, pos, dir, TRUE)
                ELSE [b \in B |-> pos]
        done == {b \in B : posB[b] # 0}
        here == [a \in A |-> IF a \in B THEN posB[a] ELSE 0]
    IN IF done = A \/ inner THEN here
       ELSE LET rest == A \ done
                further == DistilP(P, rest, s, MaxCred(P.M, rest), pos + 1, dir, FALSE)
            IN [a \in A |-> IF a \in done THEN here[a] ELSE further[a]]
Distil(M, A, s, lam, pos, dir, inner) == DistilP(Prep(M, A, s), A, s, lam, pos, dir, inner)

AscIdx(M, A, s) == Distil(M, A, s, MaxCred(M, A), 1, "asc", FALSE)
DescRaw(M, A, s) == Distil(M, A, s, MaxCred(M, A), 1, "desc", FALSE)
DescIdx(M, A, s) == LET r == DescRaw(M, A, s)
                        mx == SetMax({r[a] : a \in A})
                    IN [a \in A |-> mx + 1 - r[a]]
ELinks(asc, desc, A, a) == {b \in A \ {a} : asc[a] <= asc[b] /\ desc[a] <= desc[b]}

(* ---------------- float fragility (R5) ---------------- *)
(* the real code computes in IEEE doubles; it agrees with exact arithmetic unless two compared *)
(* quantities are exactly equal and at least one of them is not a dyadic rational               *)
Fragile(M, A, s) ==
  LET ents == Pairs(A)
      val(e) == M[e[1]][e[2]]
      nondy == {e \in ents : ~RIsDyadic(val(e))}
      sdy == RIsDyadic(s.a) /\ RIsDyadic(s.b)
  IN (nondy # {} \/ ~sdy) /\
     (\/ \E e \in ents : \E f \in ents : e # f /\ REq(val(e), val(f)) /\ (~RIsDyadic(val(e)) \/ ~sdy)
      \/ \E e \in ents : \E f \in ents : REq(val(e), RSub(val(f), SVal(s, val(f)))) /\ ~RIsZero(SVal(s, val(f)))
      \/ \E e \in ents : REq(val(e), RAdd(M[e[2]][e[1]], SVal(s, val(e)))))

(* the same with stage-1 inexactness X[a][b] (InexactMatrix): an entry computed through non-dyadic intermediates *)
(* counts as inexact even if its exact value is dyadic.  Two equal entries are fragile only if one of them is   *)
(* inexact (entries are compared with each other as they are); the distillation function enters the comparisons *)
(* of the second and third kind only, where a margin s(x) > 0 separates equal entries robustly                   *)
FragileX(M, X, A, s) ==
  LET ents == Pairs(A)
      val(e) == M[e[1]][e[2]]
      inex(e) == ~RIsDyadic(val(e)) \/ X[e[1]][e[2]]
      sdy == RIsDyadic(s.a) /\ RIsDyadic(s.b)
  IN ((\E e \in ents : inex(e)) \/ ~sdy) /\
     (\/ \E e \in ents : \E f \in ents : e # f /\ REq(val(e), val(f)) /\ (inex(e) \/ inex(f))
      \/ \E e \in ents : \E f \in ents : REq(val(e), RSub(val(f), SVal(s, val(f)))) /\ ~RIsZero(SVal(s, val(f)))
      \/ \E e \in ents : REq(val(e), RAdd(M[e[2]][e[1]], SVal(s, val(e)))))

(* entries too fine for TLC's 32-bit integers: the tie analysis (and the reference distillation) would multiply *)
(* their denominators; such instances are left to the relations of C06 and the structural contracts            *)
BigDen(M, A) == \E e \in Pairs(A) : M[e[1]][e[2]][2] > 4096

(* ---------------- lemmas checked on the design (C06) ---------------- *)
Dominates(crs, x, a, b) ==
  \A j \in DOMAIN crs : IF crs[j].ty = "cost" THEN x[a][j] <= x[b][j] ELSE x[a][j] >= x[b][j]
=============================================================================
