----------------------------- MODULE Decision -----------------------------
(* One decision as a state machine (Go: DecisionMaker.MakeDecision and       *)
(* processBiases): Validate -> Parse -> for every ENABLED bias, in request   *)
(* order, one draw d and then Skip (p <= d) or Apply -> Evaluate -> Respond. *)
(* The data are abstracted to what the coherence properties talk about:      *)
(*   crit    criteria of the working state                                   *)
(*   vcover  criteria for which every known alternative has a value          *)
(*   pcover  criteria the method's parameters cover                          *)
(*   cons / ncons   considered / not-considered alternatives                 *)
(*   touched criteria whose values an earlier bias rewrote (must persist)    *)
(* A bias is [name, p, disabled] with p in 0..4 (quarters); a draw is in     *)
(* 0..3 and stands for the interval [d/4, (d+1)/4): the bias fires iff p > d *)
(* - so p = 4 always fires and p = 0 never does.  What each kind of bias may *)
(* do to the abstract state is its frame condition (C07); the concrete       *)
(* contracts of the six biases are in Biases.tla.                            *)
EXTENDS Num

CONSTANTS Crit0,      \* criteria of the request
          Fresh       \* pool of ids for added criteria

Adding == {"criteriaConcealment", "criteriaMixing", "anchoringNew"}
Kinds == {"criteriaOmission", "preferenceReversal", "fatigue", "anchoringInline"} \cup Adding

VARIABLES req,      \* [biases |-> seq of [name, p, disabled], draws |-> seq over enabled positions]
          pc, i, crit, vcover, pcover, cons, ncons, touched, fired, reports
vars == <<req, pc, i, crit, vcover, pcover, cons, ncons, touched, fired, reports>>

Enabled(r) == SelectSeq(r.biases, LAMBDA b : ~b.disabled)
Fires(r, k) == Enabled(r)[k].p > r.draws[k]

DInit(r) == /\ req = r /\ pc = "validate" /\ i = 1 /\ crit = Crit0 /\ vcover = Crit0 /\ pcover = Crit0
            /\ cons = {"a1", "a2"} /\ ncons = {"a3"} /\ touched = {} /\ fired = <<>> /\ reports = <<>>

Validate == pc = "validate" /\ pc' = "parse" /\ UNCHANGED <<req, i, crit, vcover, pcover, cons, ncons, touched, fired, reports>>
Parse == pc = "parse" /\ pc' = "bias" /\ UNCHANGED <<req, i, crit, vcover, pcover, cons, ncons, touched, fired, reports>>

Skip ==
  /\ pc = "bias" /\ i <= Len(Enabled(req)) /\ ~Fires(req, i)
  /\ fired' = Append(fired, FALSE) /\ reports' = Append(reports, [name |-> Enabled(req)[i].name, props |-> "null"])
  /\ i' = i + 1 /\ UNCHANGED <<req, pc, crit, vcover, pcover, cons, ncons, touched>>

(* what a firing bias of each kind does to the abstract state *)
Apply ==
  /\ pc = "bias" /\ i <= Len(Enabled(req)) /\ Fires(req, i)
  /\ LET b == Enabled(req)[i] IN
     \/ /\ b.name = "criteriaOmission"
        /\ \E om \in SUBSET crit : om # crit   \* a bias that removes every criterion is outside the domain
              /\ crit' = crit \ om /\ vcover' = vcover \ om /\ pcover' = pcover \ om /\ touched' = touched \ om
              /\ reports' = Append(reports, [name |-> b.name, props |-> [omitted |-> om]])
     \/ /\ b.name = "preferenceReversal"
        /\ \E sel \in SUBSET crit :
              /\ touched' = touched \cup sel /\ reports' = Append(reports, [name |-> b.name, props |-> [reversed |-> sel]])
        /\ UNCHANGED <<crit, vcover, pcover>>
     \/ /\ b.name \in {"fatigue", "anchoringInline"}
        /\ touched' = touched \cup crit /\ reports' = Append(reports, [name |-> b.name, props |-> [rewritten |-> crit]])
        /\ UNCHANGED <<crit, vcover, pcover>>
     \/ /\ b.name \in Adding
        /\ IF b.name = "criteriaMixing" /\ Cardinality(crit) < 2
           THEN /\ reports' = Append(reports, [name |-> b.name, props |-> "null"])
                /\ UNCHANGED <<crit, vcover, pcover, touched>>
           ELSE \E n \in Fresh \ crit :
                  /\ crit' = crit \cup {n} /\ vcover' = vcover \cup {n} /\ pcover' = pcover \cup {n}
                  /\ reports' = Append(reports, [name |-> b.name, props |-> [added |-> {n}]])
                  /\ UNCHANGED touched
  /\ fired' = Append(fired, TRUE) /\ i' = i + 1 /\ UNCHANGED <<req, pc, cons, ncons>>

Evaluate == /\ pc = "bias" /\ i > Len(Enabled(req)) /\ pc' = "respond"
            /\ UNCHANGED <<req, i, crit, vcover, pcover, cons, ncons, touched, fired, reports>>
Respond == /\ pc = "respond" /\ pc' = "done"
           /\ UNCHANGED <<req, i, crit, vcover, pcover, cons, ncons, touched, fired, reports>>

DNext == Validate \/ Parse \/ Skip \/ Apply \/ Evaluate \/ Respond

(* ---------------- properties ---------------- *)
(* C07: every alternative has a value for every current criterion, parameters cover every current criterion *)
Coherent == vcover = crit /\ pcover = crit /\ crit # {}
(* C07: the alternatives and their considered / not-considered split never change *)
SplitStable == cons = {"a1", "a2"} /\ ncons = {"a3"}
(* C07: rewritten values of criteria that still exist stay rewritten (nobody restores the original data) *)
Persistence == [][touched \cap crit' \subseteq touched']_vars
(* C08: one report per enabled bias, in order, echoing the name; a skipped bias reports null *)
BiasEcho == /\ Len(reports) = Len(fired) /\ Len(fired) <= Len(Enabled(req))
            /\ \A k \in DOMAIN reports : reports[k].name = Enabled(req)[k].name
            /\ \A k \in DOMAIN fired : ~fired[k] => reports[k].props = "null"
            /\ (pc = "done" => Len(reports) = Len(Enabled(req)))
(* C08: whether position k fires depends on its own probability and its draw only *)
FireRule == \A k \in DOMAIN fired : fired[k] = (Enabled(req)[k].p > req.draws[k])
P1Always == \A k \in DOMAIN fired : Enabled(req)[k].p = 4 => fired[k]
P0Never == \A k \in DOMAIN fired : Enabled(req)[k].p = 0 => ~fired[k]
(* C08: a skipped bias changes nothing *)
SkipIsIdentity == [][(pc = "bias" /\ i <= Len(Enabled(req)) /\ ~Fires(req, i)) =>
                       UNCHANGED <<crit, vcover, pcover, cons, ncons, touched>>]_vars
=============================================================================
