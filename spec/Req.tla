------------------------------- MODULE Req -------------------------------
(* Builders for request records (what TLC emits as cases) and accessors for *)
(* observation lines (what the harness records).  Numbers are integers in   *)
(* the family unit U; the harness divides request numbers by U and          *)
(* multiplies response numbers by U.                                        *)
EXTENDS Num

AltName == <<"a1", "a2", "a3", "a4", "a5", "a6", "a7", "a8", "a9">>
CritName == <<"c1", "c2", "c3", "c4", "c5", "c6">>
AltIdx(a) == CHOOSE i \in DOMAIN AltName : AltName[i] = a
CritIdx(c) == CHOOSE i \in DOMAIN CritName : CritName[i] = c

(* seq of alternative records from a value table tab[i][j] (i-th alternative, j-th criterion) *)
KnownAlts(n, m, tab) ==
  [i \in 1..n |-> [id |-> AltName[i],
                   criteria |-> [c \in {CritName[j] : j \in 1..m} |-> tab[i][CritIdx(c)]]]]

Crit(j, ty) == [id |-> CritName[j], type |-> ty]
CritR(j, ty, lo, hi) == [id |-> CritName[j], type |-> ty, valuesRange |-> [min |-> lo, max |-> hi]]

(* ---- observation accessors ---- *)
EventsOfKind(o, k) == SelectSeq(o.events, LAMBDA e : e.kind = k)
HasEval(o) == Len(EventsOfKind(o, "evaluate")) = 1
EvalState(o) == EventsOfKind(o, "evaluate")[1].after
ParsedState(o) == EventsOfKind(o, "parsed")[1].after
BiasEvents(o) == EventsOfKind(o, "bias")

StCritIds(st) == {st.criteria[i].id : i \in DOMAIN st.criteria}
StCritSeq(st) == [i \in DOMAIN st.criteria |-> st.criteria[i].id]
StType(st) == [c \in StCritIds(st) |-> st.criteria[CHOOSE i \in DOMAIN st.criteria : st.criteria[i].id = c].type]
StCrit(st, c) == st.criteria[CHOOSE i \in DOMAIN st.criteria : st.criteria[i].id = c]
StAllAlts(st) == st.considered \o st.notConsidered
AltIdsOf(s) == {s[i].id : i \in DOMAIN s}
AltById(s, a) == s[CHOOSE i \in DOMAIN s : s[i].id = a]

(* rank of an alternative id in ascending id order, as recorded by the harness *)
IdOrd(o) == [a \in SeqSet(o.altOrder) |-> IndexOf(o.altOrder, a)]
=============================================================================
