SPECIFICATION Spec
CONSTANTS
Grid = {0, 1, 2, 3, 4}
Funs = {1, 2, 3, 4, 5}
INVARIANTS ClassifiedOnce Consecutive AgreesWithDefinition ZeroMatrixOneClass
PROPERTIES Progress CutsNeverRise
CHECK_DEADLOCK FALSE
