----------------------------- MODULE MC_Service -----------------------------
(* Bounded instance of Service: two (or three) concurrent clients, a pool of  *)
(* request classes, bounded number of accepted requests.  Every interleaving  *)
(* of the handlers' steps is explored.                                         *)
EXTENDS Service

CONSTANTS MaxOps
c1 == "c1"
c2 == "c2"
c3 == "c3"
PoolDef == { [id |-> "v0", class |-> "valid", steps |-> 0, stateful |-> FALSE],
             [id |-> "v2", class |-> "valid", steps |-> 2, stateful |-> FALSE],
             [id |-> "s1", class |-> "valid", steps |-> 1, stateful |-> TRUE],
             [id |-> "s0", class |-> "valid", steps |-> 0, stateful |-> TRUE],
             [id |-> "bad", class |-> "invalid", steps |-> 1, stateful |-> FALSE],
             [id |-> "mal", class |-> "malformed", steps |-> 0, stateful |-> FALSE],
             [id |-> "div", class |-> "diverging", steps |-> 0, stateful |-> FALSE] }
(* the assumptions of spec/proofs/Service_proofs.tla about the pool, checked on this instance by TLC at start-up *)
ASSUME PoolAssumptions ==
  /\ \A r \in PoolDef : r.class \in {"valid", "invalid", "malformed", "diverging"} /\ r.steps \in Nat
  /\ \A r1, r2 \in PoolDef : r1.id = r2.id => r1.class = r2.class
(* bound the exploration: at most MaxOps accepted requests in total *)
Accepted == Cardinality({i \in DOMAIN sched : sched[i][2] = "accepted"})
Bounded == Accepted <= MaxOps
(* the schedule history is observation only: states are identified without it *)
View == <<alive, registry, shared, h, answers, Accepted>>
=============================================================================
