SPECIFICATION Spec
CONSTANTS
MaxN = 4
Vals = {0, 1, 2}
Sources = {"thr", "add", "mul"}
Extras = {0, 1}
INVARIANTS ElimSound SurvivorsSound StopRule Partition SingleConsumesNothing FinalRanking
CHECK_DEADLOCK FALSE
