---------------------------- MODULE MC_ElectreE ----------------------------
(* Bounded end-to-end model of ELECTRE III: criteria with constant            *)
(* thresholds (every combination of absent / q / p / v the domain allows),    *)
(* weights and gain/cost types -> credibility matrix (exact rationals) -> the *)
(* two distillations, one class per step.  Checks the design lemmas behind    *)
(* C06 (dominance, identical alternatives) on the definition itself and emits *)
(* every instance - with a permuted and two weight-scaled twins - for replay  *)
(* through MakeDecision.                                                      *)
EXTENDS Electre, Req, Json, TLC

CONSTANTS Shapes,   \* set of 10*n + m (n alternatives, m criteria)
          EVals,    \* criterion values (plain integers, multiplied by UNIT)
          ThCfgs,   \* threshold configurations per criterion (indices into ThTable)
          KCfgs,    \* weight vectors (indices into KTable)
          Funs

UNIT == 256
(* [q, p, v] in value units, 0 = absent; domain: q < p < v, veto only with p *)
(* 6 has its veto threshold on the value grid: a difference can EQUAL v (full veto starts strictly above v) *)
ThTable == << <<0, 0, 0>>, <<1, 0, 0>>, <<1, 2, 0>>, <<0, 2, 0>>, <<1, 2, 4>>, <<0, 2, 3>>, <<1, 3, 7>> >>
KTable == << <<1, 1, 1>>, <<1, 3, 2>>, <<2, 2, 4>> >>
DistFuns == << [a |-> RZero, b |-> <<1, 8>>], [a |-> <<-1, 8>>, b |-> <<1, 4>>], [a |-> RZero, b |-> RZero],
               [a |-> <<-3, 20>>, b |-> <<3, 10>>], [a |-> <<-1, 2>>, b |-> <<1, 2>>] >>
DistReq == << [a |-> 0, b |-> UNIT \div 8], [a |-> 0 - (UNIT \div 8), b |-> UNIT \div 4], [a |-> 0, b |-> 0], [none |-> TRUE],
             [a |-> 0 - (UNIT \div 2), b |-> UNIT \div 2] >>

(* the largest shape (3 alternatives x 2 criteria) uses at most three criterion values to keep the instance set enumerable *)
EValsOf(sh) == IF sh = 32 /\ Cardinality(EVals) > 3 THEN {v \in EVals : v <= 3} ELSE EVals
Instances == UNION {[n : {sh \div 10}, m : {sh % 10}, vals : [1..(sh \div 10) -> [1..(sh % 10) -> EValsOf(sh)]],
                     th : [1..(sh % 10) -> ThCfgs], k : KCfgs, ty : [1..(sh % 10) -> {"gain", "cost"}], f : Funs] : sh \in Shapes}

AOf(i) == {AltName[a] : a \in 1..i.n}
COf(i) == {CritName[j] : j \in 1..i.m}
CrsOf(i, kmul) ==
  [c \in COf(i) |->
     LET j == CritIdx(c) t == ThTable[i.th[j]] IN
     [ty |-> i.ty[j], k |-> kmul * KTable[i.k][j], q |-> UNIT * t[1], p |-> UNIT * t[2], v |-> UNIT * t[3],
      hasq |-> t[1] # 0, hasp |-> t[2] # 0, hasv |-> t[3] # 0]]
XOf(i) == [a \in AOf(i) |-> [c \in COf(i) |-> UNIT * i.vals[AltIdx(a)][CritIdx(c)]]]
MOf(i) == CredMatrix(CrsOf(i, 1), XOf(i), AOf(i), TRUE)
SOf(i) == DistFuns[i.f]

EleCrit(i, kq) ==
  [c \in COf(i) |->
     LET j == CritIdx(c) t == ThTable[i.th[j]]
         base == [k |-> (UNIT * KTable[i.k][j] * kq[1]) \div kq[2]]
         wq == IF t[1] # 0 THEN base @@ [q |-> [b |-> UNIT * t[1]]] ELSE base
         wp == IF t[2] # 0 THEN wq @@ [p |-> [b |-> UNIT * t[2]]] ELSE wq
     IN IF t[3] # 0 THEN wp @@ [v |-> [b |-> UNIT * t[3]]] ELSE wp]
Rev(s) == [k \in DOMAIN s |-> s[Len(s) + 1 - k]]
ReqOf(i, twin, kq) ==
  LET known == KnownAlts(i.n, i.m, [a \in 1..i.n |-> [j \in 1..i.m |-> UNIT * i.vals[a][j]]])
      chose == [k \in 1..i.n |-> AltName[k]]
      mp0 == [electreCriteria |-> EleCrit(i, kq)]
  IN [preferenceFunction |-> "electreIII",
      knownAlternatives |-> IF twin THEN Rev(known) ELSE known,
      choseToMake |-> IF twin THEN Rev(chose) ELSE chose,
      criteria |-> [j \in 1..i.m |-> Crit(j, i.ty[j])],
      methodParameters |-> IF Has(DistReq[i.f], "none") THEN mp0 ELSE mp0 @@ [electreDistillation |-> DistReq[i.f]],
      biases |-> <<>>]
CaseOf(i, twin, kq) ==
  [id |-> "e", fam |-> "Electre", unit |-> UNIT, hook |-> TRUE, via |-> "http", expect |-> "ok", failprop |-> "C05",
   sa |-> SOf(i).a, sb |-> SOf(i).b, inst |-> i, group |-> [id |-> "x", rel |-> "perm", p |-> "C06"],
   req |-> ReqOf(i, twin, kq)]

VARIABLES inst, P, dir, rem, k, idx, pc
vars == <<inst, P, dir, rem, k, idx, pc>>

Init == /\ inst \in Instances /\ P = Prep(MOf(inst), AOf(inst), SOf(inst)) /\ dir \in {"asc", "desc"}
        /\ rem = AOf(inst) /\ k = 1 /\ idx = [a \in AOf(inst) |-> 0] /\ pc = "emit"
Emit == /\ pc = "emit"
        /\ IF dir = "asc"
           THEN PrintT(ToJson(<<CaseOf(inst, FALSE, <<1, 1>>), CaseOf(inst, TRUE, <<1, 1>>),
                                CaseOf(inst, FALSE, <<2, 1>>), CaseOf(inst, FALSE, <<1, 4>>)>>))
           ELSE TRUE
        /\ pc' = "run" /\ UNCHANGED <<inst, P, dir, rem, k, idx>>
ClassifyNext ==
  /\ pc = "run" /\ rem # {}
  /\ LET d == DistilP(P, rem, SOf(inst), MaxCred(P.M, rem), k, dir, TRUE)
         done == {a \in rem : d[a] # 0}
     IN idx' = [a \in AOf(inst) |-> IF a \in done THEN k ELSE idx[a]] /\ rem' = rem \ done
  /\ k' = k + 1 /\ UNCHANGED <<inst, P, dir, pc>>
Finish == pc = "run" /\ rem = {} /\ pc' = "done" /\ UNCHANGED <<inst, P, dir, rem, k, idx>>
Next == Emit \/ ClassifyNext \/ Finish
Spec == Init /\ [][Next]_vars

Progress == [][(pc = "run" /\ rem # {}) => (rem' # rem /\ rem' \subseteq rem)]_vars
Consecutive == {idx[a] : a \in AOf(inst) \ rem} = 1..(k - 1)
AgreesWithDefinition ==
  pc = "done" => idx = DistilP(P, AOf(inst), SOf(inst), MaxCred(P.M, AOf(inst)), 1, dir, FALSE)
(* credibility is 1 towards anything one dominates, and monotone: lemma behind C06 *)
CredOfDominator ==
  \A a \in AOf(inst) : \A b \in AOf(inst) :
     Dominates(CrsOf(inst, 1), XOf(inst), a, b) => REq(P.M[a][b], ROne)
(* a dominating alternative is never classified after the dominated one (asc: smaller = better;  *)
(* desc raw positions count from the worst end)                                                   *)
DominanceLemma ==
  pc = "done" =>
    \A a \in AOf(inst) : \A b \in AOf(inst) \ {a} :
       Dominates(CrsOf(inst, 1), XOf(inst), a, b) =>
          IF dir = "asc" THEN idx[a] <= idx[b] ELSE idx[a] >= idx[b]
IdenticalLemma ==
  pc = "done" =>
    \A a \in AOf(inst) : \A b \in AOf(inst) :
       (\A c \in COf(inst) : XOf(inst)[a][c] = XOf(inst)[b][c]) => idx[a] = idx[b]
(* multiplying every weight by the same factor changes nothing *)
ScaleLemma == CredMatrix(CrsOf(inst, 4), XOf(inst), AOf(inst), TRUE) = P.M
=============================================================================
