---------------------------- MODULE MC_Schedules ----------------------------
(* All interleavings of the gate points (hook events parsed / bias.. /        *)
(* evaluate) of concurrently handled requests: the schedules of Service.tla   *)
(* projected to the steps the implementation exposes.  Every terminal state   *)
(* carries one complete schedule, emitted for gated replay (C10).             *)
EXTENDS Integers, Sequences, FiniteSets, Json, TLC

CONSTANTS Gates     \* set of gate-count vectors encoded as 10*g1 + g2 (two clients) or 100*g1 + 10*g2 + g3

VARIABLES cfg, pos, sched, pc
vars == <<cfg, pos, sched, pc>>

NClients(c) == IF c >= 100 THEN 3 ELSE 2
GateCount(c, i) == IF c >= 100 THEN (IF i = 1 THEN c \div 100 ELSE IF i = 2 THEN (c \div 10) % 10 ELSE c % 10)
                   ELSE (IF i = 1 THEN c \div 10 ELSE c % 10)

Init == cfg \in Gates /\ pos = [i \in 1..NClients(cfg) |-> 0] /\ sched = <<>> /\ pc = "run"
Advance(i) == /\ pc = "run" /\ pos[i] < GateCount(cfg, i)
              /\ pos' = [pos EXCEPT ![i] = @ + 1] /\ sched' = Append(sched, i) /\ UNCHANGED <<cfg, pc>>
Emit == /\ pc = "run" /\ \A i \in DOMAIN pos : pos[i] = GateCount(cfg, i)
        /\ PrintT(ToJson([gates |-> cfg, schedule |-> sched]))
        /\ pc' = "done" /\ UNCHANGED <<cfg, pos, sched>>
Next == (\E i \in DOMAIN pos : Advance(i)) \/ Emit
Spec == Init /\ [][Next]_vars

(* every client's gates are passed in order and completely *)
Complete == pc = "done" => \A i \in DOMAIN pos : Cardinality({k \in DOMAIN sched : sched[k] = i}) = GateCount(cfg, i)
=============================================================================
