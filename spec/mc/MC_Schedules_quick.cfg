SPECIFICATION Spec
CONSTANTS
Gates = {22, 33, 23}
INVARIANTS Complete
CHECK_DEADLOCK FALSE
