SPECIFICATION Spec
CONSTANTS
Grid = {0, 2, 3, 4}
Funs = {2, 5}
INVARIANTS ClassifiedOnce Consecutive AgreesWithDefinition ZeroMatrixOneClass
PROPERTIES Progress CutsNeverRise
CHECK_DEADLOCK FALSE
