SPECIFICATION Spec
CONSTANTS
MaxN = 4
Vals = {0, 1, 2}
Sources = {"thr", "mul", "sub"}
CCs = {"none", "first", "last", "out"}
INVARIANTS AcceptedSound LeftSound Ordered Partition FinalRanking
CHECK_DEADLOCK FALSE
