SPECIFICATION Spec
CONSTANTS
MaxN = 6
TVals = {0, 1, 2}
NudgeN = 4
FM = 3
FWeights = {0, 1, 3}
FCaps = {0, 2, 4}
INVARIANTS TypeOK SortedSoFar ReachTheorem OrderIsVOrder ChoquetBounds
CHECK_DEADLOCK FALSE
