SPECIFICATION Spec
CONSTANTS
MaxN = 3
Vals = {0, 1, 2}
Sources = {"thr", "mul"}
CCs = {"none", "first", "last", "out"}
INVARIANTS AcceptedSound LeftSound Ordered Partition FinalRanking
CHECK_DEADLOCK FALSE
