----------------------------- MODULE MC_Levels -----------------------------
(* Bounded model of the generated aspiration-level series (C14).  The ratio  *)
(* iterator runs one update per step; monotonicity, bounds and termination   *)
(* are checked in every state.  Every parameter set - valid or not - is      *)
(* emitted as a case for the real iterators (harness mode `levels`).         *)
EXTENDS Levels, Req, Json, TLC

CONSTANTS Coefs,    \* coefficient numerators over CD (0 and CD are invalid on purpose)
          CD,
          Bounds    \* minValue / maxValue numerators over 4 (outside 0..4 is invalid on purpose)

UNIT == 256
Dirs == {"inc", "dec"}
ModesOf(d) == IF d = "inc" THEN IncModes ELSE DecModes

(* data sets: (criteria, alternatives); values are integers of UNIT *)
DataSets == <<
  (* 1: gain with declared range, cost observed *)
  [criteria |-> <<CritR(1, "gain", 0, 4 * UNIT), Crit(2, "cost")>>,
   alternatives |-> KnownAlts(3, 2, <<<<1 * UNIT, 2 * UNIT>>, <<3 * UNIT, 6 * UNIT>>, <<2 * UNIT, 10 * UNIT>>>>), considered |-> 2],
  (* 2: negative values, observed ranges; the extreme values belong to a not-considered alternative *)
  [criteria |-> <<Crit(1, "gain"), Crit(2, "cost")>>,
   alternatives |-> KnownAlts(3, 2, <<<<(0 - 2) * UNIT, 0>>, <<2 * UNIT, (0 - 4) * UNIT>>, <<6 * UNIT, 4 * UNIT>>>>), considered |-> 2],
  (* 3: degenerate observed range (min = max) and a declared cost range *)
  [criteria |-> <<Crit(1, "gain"), CritR(2, "cost", (0 - 8) * UNIT, 8 * UNIT)>>,
   alternatives |-> KnownAlts(2, 2, <<<<5 * UNIT, 1 * UNIT>>, <<5 * UNIT, 3 * UNIT>>>>), considered |-> 2],
  (* 4: every value negative, observed ranges *)
  [criteria |-> <<Crit(1, "gain"), Crit(2, "cost")>>,
   alternatives |-> KnownAlts(3, 2, <<<<(0 - 6) * UNIT, (0 - 1) * UNIT>>, <<(0 - 2) * UNIT, (0 - 5) * UNIT>>, <<(0 - 4) * UNIT, (0 - 3) * UNIT>>>>), considered |-> 3]
>>

Instances == [dir : Dirs, mode : IncModes \cup DecModes, cn : Coefs, lo : Bounds, hi : Bounds, ds : DOMAIN DataSets]

Valid(i) == LParamsValid(i.dir, (i.lo * LD) \div 4, (i.hi * LD) \div 4, i.cn, CD) /\ i.lo >= 0 /\ i.hi >= 0
Lo(i) == (i.lo * LD) \div 4
Hi(i) == (i.hi * LD) \div 4

CaseOf(i) ==
  [id |-> "l", fam |-> "Levels", unit |-> UNIT, inst |-> i,
   valid |-> Valid(i),
   exact |-> (Valid(i) /\ LGeneratedExact(i.dir, i.mode, Lo(i), Hi(i), i.cn, CD, DataSets[i.ds].criteria, DataSets[i.ds].alternatives)),
   lv |-> [dir |-> i.dir, function |-> i.mode,
           params |-> [coefficient |-> (i.cn * UNIT) \div CD, minValue |-> (i.lo * UNIT) \div 4, maxValue |-> (i.hi * UNIT) \div 4],
           criteria |-> DataSets[i.ds].criteria, alternatives |-> DataSets[i.ds].alternatives,
           considered |-> [int |-> DataSets[i.ds].considered]]]

VARIABLES inst, r, n, pc
vars == <<inst, r, n, pc>>

Init == /\ inst \in {i \in Instances : i.mode \in ModesOf(i.dir)}
        /\ r = LInitial(inst.dir, Lo(inst), Hi(inst)) /\ n = 0 /\ pc = "emit"

Emit == pc = "emit" /\ PrintT(ToJson(<<CaseOf(inst)>>)) /\ pc' = (IF Valid(inst) THEN "run" ELSE "rejected")
        /\ UNCHANGED <<inst, r, n>>

NextLevel ==
  /\ pc = "run" /\ LHasNext(inst.dir, r, Lo(inst), Hi(inst))
  /\ r' = LUpd(inst.dir, inst.mode, r, inst.cn, CD) /\ n' = n + 1
  /\ UNCHANGED <<inst, pc>>

Exhausted == pc = "run" /\ ~LHasNext(inst.dir, r, Lo(inst), Hi(inst)) /\ pc' = "done" /\ UNCHANGED <<inst, r, n>>

Next == Emit \/ NextLevel \/ Exhausted
Spec == Init /\ [][Next]_vars

(* ---- invariants / action properties of the design ---- *)
InUnitInterval == pc = "run" => r >= 0 /\ r <= LD
(* the series is strictly monotone, so it cannot repeat a level *)
StrictlyMonotone ==
  [][(pc = "run" /\ pc' = "run" /\ n' = n + 1) =>
       IF inst.dir = "inc" THEN r' > r ELSE r' < r]_vars
(* it ends: a bounded number of levels for every in-domain parameter set of this grid *)
Finite == n <= 40
(* the closed form used on the trace side agrees with the stepwise iterator *)
SeriesAgrees == pc = "done" => n = Len(LSeries(inst.dir, inst.mode, Lo(inst), Hi(inst), inst.cn, CD))
(* no level at all iff the start value is already past the bound *)
FirstLevelRule == (pc = "done" /\ n = 0) => ~LHasNext(inst.dir, LInitial(inst.dir, Lo(inst), Hi(inst)), Lo(inst), Hi(inst))
=============================================================================
