SPECIFICATION Spec
CONSTANTS
Crit0 = {"c1", "c2", "c3"}
Fresh = {"n1", "n2", "n3"}
MaxLen = 3
DisabledFlags = {FALSE}
Probs = {0, 4}
INVARIANTS Coherent SplitStable BiasEcho FireRule P1Always P0Never
PROPERTIES Persistence SkipIsIdentity
CHECK_DEADLOCK FALSE
