---------------------------- MODULE MC_Decision ----------------------------
(* Bounded instance of Decision: all bias lists of length <= MaxLen over the *)
(* seven kinds, probabilities 0, 1/2, 1, disabled flags, all draws.  The     *)
(* coherence / frame / echo / fire-rule properties are checked in every      *)
(* state.  For every list whose probabilities are all 0 or 1 (so that the    *)
(* real draws cannot matter) one request per method is emitted for replay.   *)
EXTENDS Decision, Json, TLC

CONSTANTS MaxLen, Probs, DisabledFlags

U == 1024
Methods7 == <<"weightedSum", "owa", "choquetIntegral", "electreIII", "majorityHeuristic",
              "aspectEliminationHeuristic", "satisfactionHeuristic">>
BiasRec == [name : Kinds, p : Probs, disabled : DisabledFlags]
BiasLists == UNION {[1..n -> BiasRec] : n \in 0..MaxLen}
Requests == {r \in [biases : BiasLists, draws : [1..MaxLen -> 0..3]] : TRUE}

(* ---------------- concrete request of a bias list ---------------- *)
CritIds == <<"c1", "c2", "c3">>
Known == << [id |-> "a1", criteria |-> [c1 |-> 2 * U, c2 |-> 6 * U, c3 |-> 1 * U]],
            [id |-> "a2", criteria |-> [c1 |-> 5 * U, c2 |-> 3 * U, c3 |-> 4 * U]],
            [id |-> "a3", criteria |-> [c1 |-> 7 * U, c2 |-> 8 * U, c3 |-> 0]] >>
CriteriaOf(m) ==
  IF m = "choquetIntegral"
  THEN << [id |-> "c1", type |-> "gain", valuesRange |-> [min |-> 0, max |-> 8 * U]], [id |-> "c2", type |-> "gain"], [id |-> "c3", type |-> "gain"] >>
  ELSE << [id |-> "c1", type |-> "gain", valuesRange |-> [min |-> 0, max |-> 8 * U]], [id |-> "c2", type |-> "cost"], [id |-> "c3", type |-> "gain"] >>
W3 == [c1 |-> 3 * U, c2 |-> 1 * U, c3 |-> 2 * U]
Thr(a, b, c) == [c1 |-> a * U, c2 |-> b * U, c3 |-> c * U]
ParamsOf(m) ==
  IF m \in {"weightedSum", "owa"} THEN [weights |-> W3]
  ELSE IF m = "choquetIntegral" THEN
     [weights |-> ("c1" :> U \div 4) @@ ("c2" :> U \div 4) @@ ("c3" :> U \div 2) @@ ("c1,c2" :> U \div 2)
                  @@ ("c1,c3" :> (3 * U) \div 4) @@ ("c2,c3" :> (3 * U) \div 4) @@ ("c1,c2,c3" :> U)]
  ELSE IF m = "electreIII" THEN
     [electreCriteria |-> [c1 |-> [k |-> 2 * U, q |-> [b |-> U], p |-> [b |-> 3 * U]], c2 |-> [k |-> U], c3 |-> [k |-> U, p |-> [b |-> 2 * U], v |-> [b |-> 5 * U]]]]
  ELSE IF m = "majorityHeuristic" THEN [weights |-> W3, randomSeed |-> 5, drawResolution |-> "allow", currentChoice |-> "a2"]
  ELSE IF m = "aspectEliminationHeuristic" THEN
     [weights |-> W3, randomSeed |-> 5, function |-> "thresholds", params |-> [thresholds |-> <<Thr(1, 7, 0), Thr(3, 5, 2)>>]]
  ELSE [randomSeed |-> 5, currentChoice |-> "a1", function |-> "idealMultipliedCoefficient",
        params |-> [coefficient |-> U \div 2, minValue |-> U \div 4, maxValue |-> U]]

Lin(a, b) == [function |-> "linear", params |-> [a |-> a, b |-> b]]
PropsOf(kind, k) ==
  IF kind = "criteriaOmission" THEN [ratio |-> U \div 2, max |-> 1, ordering |-> IF k = 1 THEN "weakest" ELSE "strongest"]
  ELSE IF kind = "preferenceReversal" THEN [ratio |-> U \div 2, ordering |-> IF k = 1 THEN "strongest" ELSE "weakest"]
  ELSE IF kind = "fatigue" THEN [function |-> "const", params |-> [value |-> U \div 4], randomSeed |-> 10 + k]
  ELSE IF kind = "criteriaConcealment" THEN [randomSeed |-> 20 + k, newCriterionImportance |-> U \div 2]
  ELSE IF kind = "criteriaMixing" THEN [randomSeed |-> 30 + k, mixingRatio |-> U \div 4, referenceCriterionType |-> "randomUniform", newCriterionRandomSeed |-> k]
  ELSE [anchoringAlternatives |-> <<[alternative |-> "a3", coefficient |-> U], [alternative |-> "a1", coefficient |-> 2 * U]>>,
        loss |-> Lin(U, 0), gain |-> Lin(U \div 2, U \div 8), referencePoints |-> [function |-> IF k = 1 THEN "ideal" ELSE "nadir"],
        applier |-> IF kind = "anchoringInline" THEN [function |-> "inline", params |-> [applyOnNotConsidered |-> (k = 2)]]
                    ELSE [function |-> "newCriterion", params |-> [randomSeed |-> 40 + k, newCriterionImportance |-> U]]]
ApiName(kind) == IF kind \in {"anchoringInline", "anchoringNew"} THEN "anchoring" ELSE kind
BiasJson(b, k) == [name |-> ApiName(b.name), applyProbability |-> (b.p * U) \div 4, disabled |-> b.disabled, props |-> PropsOf(b.name, k)]

CaseOf(r, m) ==
  [id |-> "p", fam |-> "Decision", unit |-> U, hook |-> TRUE, probe |-> TRUE, bias |-> TRUE, via |-> "lib",
   expect |-> "ok", failprop |-> "C07", methodref |-> FALSE,
   model |-> [kinds |-> [k \in DOMAIN r.biases |-> r.biases[k].name]],
   req |-> [preferenceFunction |-> m, knownAlternatives |-> Known, choseToMake |-> <<"a1", "a2">>,
            criteria |-> CriteriaOf(m), methodParameters |-> ParamsOf(m), biasApplyRandomSeed |-> 77,
            biases |-> [k \in DOMAIN r.biases |-> BiasJson(r.biases[k], k)]]]

Emittable(r) == (\A k \in DOMAIN r.biases : r.biases[k].p \in {0, 4}) /\ (\A k \in DOMAIN r.draws : r.draws[k] = 0)

VARIABLE emitted
Init == \E r \in Requests : DInit(r) /\ emitted = FALSE
Emit == /\ ~emitted /\ pc = "validate"
        /\ IF Emittable(req) THEN PrintT(ToJson([k \in 1..7 |-> CaseOf(req, Methods7[k])])) ELSE TRUE
        /\ emitted' = TRUE /\ UNCHANGED vars
Next == Emit \/ (emitted /\ DNext /\ UNCHANGED emitted)
Spec == Init /\ [][Next]_<<vars, emitted>>
=============================================================================
