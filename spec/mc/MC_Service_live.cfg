SPECIFICATION FairSpec
CONSTANTS
Clients = {"c1", "c2"}
Pool <- PoolDef
GuardDiverging = TRUE
SharedIterator = FALSE
KeepSched = FALSE
MaxOps = 3
INVARIANTS Survives Isolation StatusClass
PROPERTIES Answered
CHECK_DEADLOCK FALSE
