---------------------------- MODULE MC_Majority ----------------------------
(* Bounded model of the majority heuristic.  Every instance is emitted once  *)
(* as a replayable case, then the tournament runs one comparison per step    *)
(* (the `random` draw policy branches on both outcomes) and the design       *)
(* invariants are checked in every intermediate state.                        *)
EXTENDS Majority, Ranking, Req, Json, TLC

CONSTANTS MaxN,    \* alternatives (family T1: one criterion, tie patterns)
          RndN,    \* T1 instances with n <= RndN are also run with seeded random search order
          N2,      \* alternatives in family T2 (two criteria, weights, cost)
          AllowN   \* family T3: draw policy `allow` only, up to AllowN alternatives

UNIT == 256
TVals == {0, 1, 2}
Policies == {"allow", "current", "newer", "random"}

InstT1 == UNION {[fam : {"T1"}, n : {n}, vals : [1..n -> TVals], pol : Policies,
                  cc : {"none", "first", "last", "out"}, ccval : {1},
                  rnd : (IF n <= RndN /\ n > 1 THEN {FALSE, TRUE} ELSE {FALSE})] : n \in 1..MaxN}
W2 == {<<1, 1>>, <<1, 2>>, <<2, 1>>, <<3, 1>>}
InstT2 == [fam : {"T2"}, n : {N2}, vals : [1..N2 -> [1..2 -> {0, 1}]], w : W2,
           types : {<<"gain", "gain">>, <<"gain", "cost">>}, pol : Policies, cc : {"none", "last"}, rnd : {FALSE}]
(* family T3: draws allowed, longer tie patterns (tie groups of 3+ followed by groups of 2+) *)
InstT3 == UNION {[fam : {"T1"}, n : {n}, vals : [1..n -> TVals], pol : {"allow"},
                  cc : {"none"}, ccval : {1}, rnd : {FALSE}] : n \in (MaxN+1)..AllowN}
Instances == InstT1 \cup InstT2 \cup InstT3

NCr(i) == IF i.fam = "T1" THEN 1 ELSE 2
NKnown(i) == IF i.cc = "out" THEN i.n + 1 ELSE i.n
Tab(i) == [a \in 1..NKnown(i) |->
             IF i.fam = "T1" THEN <<UNIT * (IF a > i.n THEN i.ccval ELSE i.vals[a])>>
             ELSE [j \in 1..2 |-> UNIT * i.vals[a][j]]]
TypesOf(i) == IF i.fam = "T1" THEN <<"gain">> ELSE i.types
WOf(i) == IF i.fam = "T1" THEN [c \in {"c1"} |-> UNIT] ELSE [c \in {"c1", "c2"} |-> UNIT * i.w[CritIdx(c)]]
CurOf(i) == IF i.cc = "none" THEN "" ELSE IF i.cc = "first" THEN "a1"
            ELSE IF i.cc = "last" THEN AltName[i.n] ELSE AltName[i.n + 1]

ReqOf(i) ==
  LET mp0 == [weights |-> WOf(i), drawResolution |-> i.pol, randomSeed |-> 7,
              randomAlternativesOrdering |-> i.rnd]
  IN [preferenceFunction |-> "majorityHeuristic",
      knownAlternatives |-> KnownAlts(NKnown(i), NCr(i), Tab(i)),
      choseToMake |-> [k \in 1..i.n |-> AltName[k]],
      criteria |-> [j \in 1..NCr(i) |-> Crit(j, TypesOf(i)[j])],
      methodParameters |-> IF i.cc = "none" THEN mp0 ELSE mp0 @@ [currentChoice |-> CurOf(i)],
      biases |-> <<>>]

CaseOf(i) == [id |-> "m", fam |-> "Majority", unit |-> UNIT, hook |-> TRUE, via |-> "http",
              expect |-> "ok", failprop |-> "C01", exactprop |-> "C11", inst |-> i, req |-> ReqOf(i)]

(* search order of the design: current choice first, then the considered ones as listed *)
OrderOf(i) ==
  LET chose == [k \in 1..i.n |-> AltName[k]] IN
  IF i.cc = "none" THEN chose
  ELSE <<CurOf(i)>> \o SelectSeq(chose, LAMBDA a : a # CurOf(i))

CtxOf(i) ==
  LET C == {CritName[j] : j \in 1..NCr(i)} IN
  [C |-> C, w |-> WOf(i), ty |-> [c \in C |-> TypesOf(i)[CritIdx(c)]],
   x |-> [a \in {AltName[k] : k \in 1..NKnown(i)} |-> [c \in C |-> Tab(i)[AltIdx(a)][CritIdx(c)]]]]

VARIABLES inst, st, pc
vars == <<inst, st, pc>>

Init == inst \in Instances /\ st = MInit(OrderOf(inst)) /\ pc = "emit"

Emit == /\ pc = "emit"
        /\ PrintT(ToJson(<<CaseOf(inst)>>))
        /\ pc' = "run" /\ UNCHANGED <<inst, st>>

Compare ==
  /\ pc = "run" /\ ~MDone(st)
  /\ \E p \in (IF inst.pol = "random" /\ MIsDraw(st, CtxOf(inst)) THEN {"current", "newer"}
               ELSE IF inst.pol = "random" THEN {"current"} ELSE {inst.pol}) :
        st' = MStep(st, CtxOf(inst), p)
  /\ UNCHANGED <<inst, pc>>

Finish == /\ pc = "run" /\ MDone(st)
          /\ pc' = "done" /\ UNCHANGED <<inst, st>>

Next == Emit \/ Compare \/ Finish
Spec == Init /\ [][Next]_vars

(* ---- invariants ---- *)
Partition == MPartition(st)
EntriesFaithful == MEntriesFaithful(st, CtxOf(inst))

(* the ranking the design produces is a well-formed ranking of the expected set (C01 on the design), *)
(* the undefeated alternative is first, an entry is ranked after the opponent it names              *)
FinalRanking ==
  pc = "done" =>
    LET r == MRanking(MFinish(st))
        ids == [k \in DOMAIN r |-> r[k].id]
        S == SeqSet(OrderOf(inst))
    IN /\ NoDup(ids) /\ SeqSet(ids) = S
       /\ \A k \in DOMAIN r : r[k].links \subseteq S \ {r[k].id}
       /\ r[1].cmp = "" /\ r[1].id = st.cur
       /\ \A k \in 2..Len(r) : r[k].cmp # "" /\ IndexOf(ids, r[k].cmp) < k
       (* a dropped entry is in its opponent's tie group only after a drawn comparison under `allow` *)
       /\ \A k \in 2..Len(r) :
            r[k].cmp \in r[k].links => (inst.pol = "allow" /\ r[k].value = r[k].cmpValue)
=============================================================================
