-------------------------- MODULE MC_Satisfaction --------------------------
(* Bounded model of the satisficing heuristic (C13).                          *)
EXTENDS Satisfaction, Levels, Ranking, Req, Json, TLC

CONSTANTS MaxN, Vals, Sources, CCs

UNIT == 256
TypePairs == {<<"gain", "gain">>, <<"gain", "cost">>}

Instances == UNION {[n : {n}, vals : [1..n -> [1..2 -> Vals]], types : TypePairs, src : Sources, cc : CCs] : n \in 1..MaxN}

(* cc = "out": the current choice is a known alternative that is not in choseToMake; it also *)
(* widens the observed ranges                                                                 *)
NKnown(i) == IF i.cc = "out" THEN i.n + 1 ELSE i.n
Tab(i) == [a \in 1..NKnown(i) |-> IF a > i.n THEN <<3 * UNIT, 1 * UNIT>> ELSE [j \in 1..2 |-> UNIT * i.vals[a][j]]]
CritsOf(i) == [j \in 1..2 |-> [id |-> CritName[j], type |-> i.types[j]]]
KnownOf(i) == KnownAlts(NKnown(i), 2, Tab(i))
CurOf(i) == IF i.cc = "none" THEN "" ELSE IF i.cc = "first" THEN "a1"
            ELSE IF i.cc = "last" THEN AltName[i.n] ELSE AltName[i.n + 1]

ThrOf(i) == << [c \in {"c1", "c2"} |-> UNIT * (IF i.types[CritIdx(c)] = "cost" THEN 0 ELSE 2)],
               [c \in {"c1", "c2"} |-> UNIT * (IF i.types[CritIdx(c)] = "cost" THEN 1 ELSE 1)] >>
MethodParams(i) ==
  LET base == IF i.cc = "none" THEN [randomSeed |-> 3] ELSE [randomSeed |-> 3, currentChoice |-> CurOf(i)] IN
  IF i.src = "thr" THEN base @@ [function |-> "thresholds", params |-> [thresholds |-> ThrOf(i)]]
  ELSE IF i.src = "sub" THEN base @@ [function |-> "idealSubtractiveCoefficient",
          params |-> [coefficient |-> UNIT \div 2, minValue |-> UNIT \div 4, maxValue |-> UNIT]]
  ELSE base @@ [function |-> "idealMultipliedCoefficient",
          params |-> [coefficient |-> UNIT \div 2, minValue |-> UNIT \div 4, maxValue |-> UNIT]]
LevelsOf(i) ==
  IF i.src = "thr" THEN ThrOf(i)
  ELSE IF i.src = "sub" THEN LGenerated("dec", "idealSubtractiveCoefficient", LD \div 4, LD, 1, 2, CritsOf(i), KnownOf(i))
  ELSE LGenerated("dec", "idealMultipliedCoefficient", LD \div 4, LD, 1, 2, CritsOf(i), KnownOf(i))

ReqOf(i) == [preferenceFunction |-> "satisfactionHeuristic", knownAlternatives |-> KnownOf(i),
             choseToMake |-> [k \in 1..i.n |-> AltName[k]], criteria |-> CritsOf(i),
             methodParameters |-> MethodParams(i), biases |-> <<>>]
CaseOf(i) == [id |-> "s", fam |-> "Satisfaction", unit |-> UNIT, hook |-> TRUE, via |-> "http", expect |-> "ok",
              failprop |-> "C01", inst |-> i, req |-> ReqOf(i)]

OrderOf(i) == LET chose == [k \in 1..i.n |-> AltName[k]] IN
              IF i.cc = "none" THEN chose ELSE <<CurOf(i)>> \o SelectSeq(chose, LAMBDA a : a # CurOf(i))
CtxOf(i) ==
  LET C == {"c1", "c2"}
      ty == [c \in C |-> i.types[CritIdx(c)]]
  IN [levels |-> LevelsOf(i), C |-> C, ty |-> ty,
      x |-> [a \in {AltName[k] : k \in 1..NKnown(i)} |-> [c \in C |-> Tab(i)[AltIdx(a)][CritIdx(c)]]],
      worst |-> [c \in C |-> LET rg == LRange(CritsOf(i)[CritIdx(c)], KnownOf(i)) IN
                             IF ty[c] = "cost" THEN rg.max ELSE rg.min]]

VARIABLES inst, ctx, st, pc
vars == <<inst, ctx, st, pc>>
Init == inst \in Instances /\ ctx = CtxOf(inst) /\ st = SInit(OrderOf(inst)) /\ pc = "emit"
Emit == pc = "emit" /\ PrintT(ToJson(<<CaseOf(inst)>>)) /\ pc' = "run" /\ UNCHANGED <<inst, ctx, st>>
Examine == pc = "run" /\ ~SDone(st, ctx) /\ st' = SStep(st, ctx) /\ UNCHANGED <<inst, ctx, pc>>
Finish == pc = "run" /\ SDone(st, ctx) /\ pc' = "done" /\ UNCHANGED <<inst, ctx, st>>
Next == Emit \/ Examine \/ Finish
Spec == Init /\ [][Next]_vars

AcceptedSound == SAcceptedSound(st, ctx)
LeftSound == SLeftSound(st, ctx)
Ordered == SOrdered(st)
Partition == SPartition(st, OrderOf(inst))
FinalRanking ==
  pc = "done" =>
    LET r == SRanking(st, ctx) IN
    /\ Len(r) = Len(OrderOf(inst)) /\ NoDup([k \in DOMAIN r |-> r[k].id])
    /\ \A k \in 1..(Len(r) - 1) : r[k].level <= r[k+1].level
    /\ \A k \in DOMAIN r : r[k].level = Len(ctx.levels) => r[k].thr = ctx.worst
=============================================================================
