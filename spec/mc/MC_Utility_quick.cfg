SPECIFICATION Spec
CONSTANTS
MaxN = 4
TVals = {0, 1, 2}
NudgeN = 3
FM = 2
FWeights = {0, 1, 3}
FCaps = {0, 1, 2, 4}
INVARIANTS TypeOK SortedSoFar ReachTheorem OrderIsVOrder ChoquetBounds
CHECK_DEADLOCK FALSE
