---------------------------- MODULE MC_Utility ----------------------------
(* Bounded model of the utility methods (weightedSum, owa, choquetIntegral): *)
(*  - the value ranking is built step by step (one action per selected       *)
(*    alternative) and its invariants are checked in every state;            *)
(*  - every terminal state emits the instance as a replayable case (a JSON   *)
(*    line on stdout) together with a twin that lists the alternatives in     *)
(*    another order (permutation invariance, C04).                            *)
(* Family "T": tie patterns - one criterion of weight 1, so the utility is    *)
(*             the criterion value itself whatever the formula defect.        *)
(* Family "F": formulas - 1..M criteria, weights, types, capacities.          *)
EXTENDS Ranking, Utility, Req, Json, TLC

CONSTANTS MaxN,      \* alternatives in family T
          TVals,     \* criterion values (plain integers, multiplied by UNIT) in family T
          NudgeN,    \* family T instances with n <= NudgeN also get sub-1e-8 nudged twins
          FM,        \* max criteria in family F
          FWeights,  \* weights in family F (quarter steps)
          FCaps      \* Choquet capacities in family F (quarter steps, within 0..4)

UNIT == 256
FVals == {-2, 0, 3, 5}   \* criterion values in family F, quarter steps (cfg files cannot hold negative literals)
Q == UNIT \div 4
Methods3 == {"weightedSum", "owa", "choquetIntegral"}

CritSet(m) == {CritName[j] : j \in 1..m}
SubsetsNE(C) == SUBSET C \ {{}}

(* "c1,c3" style key of a criteria set (ids in ascending order) *)
RECURSIVE JoinKey(_, _)
JoinKey(C, from) ==
  IF from > Len(CritName) THEN ""
  ELSE IF CritName[from] \in C
       THEN (IF \E k \in (from+1)..Len(CritName) : CritName[k] \in C
             THEN CritName[from] \o "," \o JoinKey(C, from + 1)
             ELSE CritName[from])
       ELSE JoinKey(C, from + 1)
SetKey(C) == JoinKey(C, 1)

(* ---------------- instances ---------------- *)
InstT == UNION {[fam : {"T"}, method : Methods3, n : {n}, vals : [1..n -> TVals], nudge : (IF n <= NudgeN THEN 0..n ELSE {0})] : n \in 1..MaxN}

InstFWS == UNION {[fam : {"F"}, method : {"weightedSum"}, m : {m},
                   types : [1..m -> {"gain", "cost"}], w : [1..m -> FWeights],
                   x : [1..m -> FVals]] : m \in 1..FM}
InstFOWA == UNION {[fam : {"F"}, method : {"owa"}, m : {m},
                   types : [1..m -> {"gain"}] \cup (IF m = 2 THEN {<<"cost", "gain">>} ELSE {}),
                   w : [1..m -> FWeights], x : [1..m -> FVals]] : m \in 1..FM}
InstFCh == UNION {[fam : {"F"}, method : {"choquetIntegral"}, m : {m},
                   mu : [SubsetsNE(CritSet(m)) -> FCaps], x : [1..m -> FVals]] : m \in 1..FM}
Instances == InstT \cup InstFWS \cup InstFOWA \cup InstFCh

(* ---------------- request of an instance ---------------- *)
NAlts(i) == IF i.fam = "T" THEN i.n ELSE 2
NCrit(i) == IF i.fam = "T" THEN 1 ELSE i.m
(* family F: second alternative has the values shifted cyclically, so two different rows *)
Tab(i) == IF i.fam = "T" THEN [a \in 1..i.n |-> <<i.vals[a] * UNIT>>]
          ELSE [a \in 1..2 |-> [j \in 1..i.m |-> Q * (IF a = 1 THEN i.x[j] ELSE i.x[(j % i.m) + 1])]]
Types(i) == IF i.fam = "T" \/ i.method = "choquetIntegral" THEN [j \in 1..NCrit(i) |-> "gain"] ELSE i.types
WeightsOf(i) ==
  IF i.fam = "T" THEN [c \in {"c1"} |-> UNIT]
  ELSE IF i.method = "choquetIntegral"
       THEN [k \in {SetKey(S) : S \in SubsetsNE(CritSet(i.m))} |->
               Q * i.mu[CHOOSE S \in SubsetsNE(CritSet(i.m)) : SetKey(S) = k]]
       ELSE [c \in CritSet(i.m) |-> Q * i.w[CritIdx(c)]]

(* listing orders: identity, and (twin) known alternatives reversed / choseToMake rotated *)
Rev(s) == [k \in DOMAIN s |-> s[Len(s) + 1 - k]]
Rot(s) == IF Len(s) <= 1 THEN s ELSE Tail(s) \o <<Head(s)>>

ReqOf(i, twin) ==
  LET n == NAlts(i)
      known == KnownAlts(n, NCrit(i), Tab(i))
      chose == [k \in 1..n |-> AltName[k]]
  IN [preferenceFunction |-> i.method,
      knownAlternatives |-> IF twin THEN Rev(known) ELSE known,
      choseToMake |-> IF twin THEN Rot(chose) ELSE chose,
      criteria |-> [j \in 1..NCrit(i) |-> Crit(j, Types(i)[j])],
      methodParameters |-> [weights |-> WeightsOf(i)],
      biases |-> <<>>]

CaseOf(i, gid, twin) ==
  LET base == [id |-> gid \o (IF twin THEN "b" ELSE "a"), fam |-> "Utility", unit |-> UNIT,
               hook |-> TRUE, via |-> "http", expect |-> "ok", failprop |-> "C01",
               exactprop |-> "C03", inst |-> i,
               group |-> [id |-> gid, rel |-> "perm", p |-> "C04"],
               req |-> ReqOf(i, twin)]
  IN IF i.fam = "T" /\ i.nudge > 0
     THEN base @@ [nudge |-> <<[alt |-> AltName[i.nudge], crit |-> "c1", k |-> 1, e |-> 30]>>]
     ELSE base

(* ---------------- the design model: selection of the ranking, one pick per step ------------ *)
(* utilities (unit UNIT) of the instance under the defining formula *)
Util(i) ==
  LET C == CritSet(NCrit(i))
      ty == [c \in C |-> Types(i)[CritIdx(c)]]
      xr(a) == [c \in C |-> Tab(i)[a][CritIdx(c)]]
  IN [a \in {AltName[k] : k \in 1..NAlts(i)} |->
       LET x == xr(AltIdx(a)) IN
       (IF i.method = "weightedSum" THEN WS2(C, [c \in C |-> IF i.fam = "T" THEN UNIT ELSE Q * i.w[CritIdx(c)]], x, ty)
        ELSE IF i.method = "owa" THEN OWA2(C, [c \in C |-> IF i.fam = "T" THEN UNIT ELSE Q * i.w[CritIdx(c)]], x)
        ELSE Choquet2(C, [S \in SubsetsNE(C) |-> IF i.fam = "T" THEN UNIT ELSE Q * i.mu[S]], x, 0)) \div UNIT]

VARIABLES inst, order, pc
vars == <<inst, order, pc>>

AltsOf(i) == {AltName[k] : k \in 1..NAlts(i)}
OrdOf(i) == [a \in AltsOf(i) |-> AltIdx(a)]
Remaining == AltsOf(inst) \ SeqSet(order)

Init == inst \in Instances /\ order = <<>> /\ pc = "rank"

Pick ==
  /\ pc = "rank" /\ Remaining # {}
  /\ LET v == Util(inst)
         a == CHOOSE x \in Remaining : \A y \in Remaining \ {x} : Before(v, OrdOf(inst), x, y)
     IN order' = Append(order, a)
  /\ UNCHANGED <<inst, pc>>

Ranked ==
  /\ pc = "rank" /\ Remaining = {}
  /\ pc' = "emit" /\ UNCHANGED <<inst, order>>

Emit ==
  /\ pc = "emit"
  /\ LET gid == ToString(TLCGet("distinct")) \o "-" \o ToString(JavaTime % 1000000) IN TRUE
  /\ PrintT(ToJson(<<CaseOf(inst, "u", FALSE), CaseOf(inst, "u", TRUE)>>))
  /\ pc' = "done" /\ UNCHANGED <<inst, order>>

Next == Pick \/ Ranked \/ Emit
Spec == Init /\ [][Next]_vars

(* ---------------- invariants of the design ---------------- *)
TypeOK == pc \in {"rank", "emit", "done"} /\ SeqSet(order) \subseteq AltsOf(inst) /\ NoDup(order)

(* picks so far are in non-increasing utility, ties by ascending id *)
SortedSoFar ==
  LET v == Util(inst) IN
  \A k \in 1..(Len(order) - 1) : Before(v, OrdOf(inst), order[k], order[k+1])

(* the links the method's definition gives reach exactly the alternatives not valued higher *)
ReachTheorem ==
  pc # "rank" =>
    LET v == Util(inst)
        S == AltsOf(inst)
        links == [a \in S |-> VLinks(v, S, a)]
    IN \A a \in S : Reach(links, a) = {b \in S \ {a} : v[b] <= v[a]}

(* the selection equals the closed form used as reference on the trace side *)
OrderIsVOrder == pc # "rank" => order = VOrder(Util(inst), OrdOf(inst), AltsOf(inst))

(* sanity of the formulas: OWA is symmetric in the criteria, Choquet with additive 0/1 capacities *)
(* of a single criterion reduces to that criterion, weighted sum is additive                      *)
ChoquetBounds ==
  (inst.fam = "F" /\ inst.method = "choquetIntegral" /\ \A j \in 1..inst.m : inst.x[j] >= 0)
  => LET C == CritSet(inst.m) IN
     /\ (\A S \in DOMAIN inst.mu : inst.mu[S] = 4)
          => \A a \in AltsOf(inst) : Util(inst)[a] = SetMax({Tab(inst)[AltIdx(a)][j] : j \in 1..inst.m})
     /\ (\A S \in DOMAIN inst.mu : inst.mu[S] = IF S = C THEN 4 ELSE 0)
          => \A a \in AltsOf(inst) : Util(inst)[a] = SetMin({Tab(inst)[AltIdx(a)][j] : j \in 1..inst.m})
=============================================================================
