SPECIFICATION Spec
CONSTANTS
MaxN = 4
RndN = 3
N2 = 3
AllowN = 6
INVARIANTS Partition EntriesFaithful FinalRanking
CHECK_DEADLOCK FALSE
