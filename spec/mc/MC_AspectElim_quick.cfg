SPECIFICATION Spec
CONSTANTS
MaxN = 3
Vals = {0, 1, 2}
Sources = {"thr", "mul"}
Extras = {1}
INVARIANTS ElimSound SurvivorsSound StopRule Partition SingleConsumesNothing FinalRanking
CHECK_DEADLOCK FALSE
