SPECIFICATION Spec
CONSTANTS
Shapes = {21, 31, 22, 32}
EVals = {0, 1, 3, 4}
ThCfgs = {1, 2, 3, 5, 7}
KCfgs = {1, 2}
Funs = {2, 5}
INVARIANTS Consecutive AgreesWithDefinition CredOfDominator DominanceLemma IdenticalLemma ScaleLemma
PROPERTIES Progress
CHECK_DEADLOCK FALSE
