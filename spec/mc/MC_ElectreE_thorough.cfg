SPECIFICATION Spec
CONSTANTS
Shapes = {21, 31, 22, 32}
EVals = {0, 1, 3, 4}
ThCfgs = {1, 2, 3, 4, 5, 6, 7}
KCfgs = {1, 2, 3}
Funs = {1, 2, 4, 5}
INVARIANTS Consecutive AgreesWithDefinition CredOfDominator DominanceLemma IdenticalLemma ScaleLemma
PROPERTIES Progress
CHECK_DEADLOCK FALSE
