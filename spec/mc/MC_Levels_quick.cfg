SPECIFICATION Spec
CONSTANTS
Coefs = {0, 1, 2, 3, 4}
CD = 4
Bounds = {0, 1, 2, 3, 4, 5}
INVARIANTS InUnitInterval Finite SeriesAgrees FirstLevelRule
PROPERTIES StrictlyMonotone
CHECK_DEADLOCK FALSE
