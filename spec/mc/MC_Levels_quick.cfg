SPECIFICATION Spec
CONSTANTS
Coefs = {0, 1, 3, 4, 8, 12, 16}
CD = 16
Bounds = {0, 1, 2, 3, 4, 5}
INVARIANTS InUnitInterval Finite SeriesAgrees FirstLevelRule
PROPERTIES StrictlyMonotone
CHECK_DEADLOCK FALSE
