SPECIFICATION Spec
CONSTANTS
MaxN = 6
RndN = 4
N2 = 4
AllowN = 7
INVARIANTS Partition EntriesFaithful FinalRanking
CHECK_DEADLOCK FALSE
