----------------------------- MODULE MC_Electre -----------------------------
(* Bounded model of the ELECTRE III distillation (stage 2) on all 3x3         *)
(* credibility matrices over a small grid.  One step classifies one class     *)
(* (including its inner distillations); the invariants say that classes are   *)
(* consecutive from 1, everybody is classified exactly once, cut levels never *)
(* rise, and the stepwise run equals the recursive definition the trace side  *)
(* uses.  Each instance is emitted for replay through RankAscending /         *)
(* RankDescending / EvaluateRanking of the real code.                         *)
EXTENDS Electre, Req, Json, TLC

CONSTANTS Grid,     \* matrix entries, numerators over 4
          Funs      \* indices into DistFuns

UNIT == 256
A3 == {"a1", "a2", "a3"}
P3 == Pairs(A3)
(* distillation functions s(x) = a x + b as rationals; 4 = the default (-0.15, 0.3), not dyadic *)
DistFuns == << [a |-> RZero, b |-> <<1, 8>>], [a |-> <<-1, 8>>, b |-> <<1, 4>>], [a |-> RZero, b |-> RZero],
               [a |-> <<-3, 20>>, b |-> <<3, 10>>],
               (* 5: steep slope - the per-entry threshold s(M[a][b]) differs from s(cut level) by whole grid steps *)
               [a |-> <<-1, 2>>, b |-> <<1, 2>>] >>

Instances == [m : [P3 -> Grid], f : Funs]
MOf(i) == [a \in A3 |-> [b \in A3 |-> IF a = b THEN ROne ELSE RNorm(i.m[<<a, b>>], 4)]]
SOf(i) == DistFuns[i.f]

Rat2Case(r) == [n |-> r[1], d |-> r[2]]
CaseOf(i) ==
  [id |-> "d", fam |-> "ElectreS2", unit |-> UNIT, inst |-> [f |-> i.f],
   fragile |-> Fragile(MOf(i), A3, SOf(i)),
   sa |-> SOf(i).a, sb |-> SOf(i).b,
   m4 |-> [a \in A3 |-> [b \in A3 |-> IF a = b THEN 4 ELSE i.m[<<a, b>>]]],
   dist |-> [alts |-> <<"a1", "a2", "a3">>,
             matrix |-> [r \in 1..3 |-> [c \in 1..3 |-> IF r = c THEN UNIT ELSE (UNIT \div 4) * i.m[<<AltName[r], AltName[c]>>]]],
             a |-> Rat2Case(SOf(i).a), b |-> Rat2Case(SOf(i).b)]]

VARIABLES inst, M, dir, rem, k, idx, lastLam, pc     \* M = Prep(MOf(inst), A3, SOf(inst)), computed once
vars == <<inst, M, dir, rem, k, idx, lastLam, pc>>

Init == /\ inst \in Instances /\ M = Prep(MOf(inst), A3, SOf(inst)) /\ dir \in {"asc", "desc"}
        /\ rem = A3 /\ k = 1 /\ idx = [a \in A3 |-> 0] /\ lastLam = ROne /\ pc = "emit"

Emit == /\ pc = "emit"
        /\ IF dir = "asc" THEN PrintT(ToJson(<<CaseOf(inst)>>)) ELSE TRUE
        /\ pc' = "run" /\ UNCHANGED <<inst, M, dir, rem, k, idx, lastLam>>

(* classify the next class: cut at the highest remaining credibility, refine ex-aequo candidates *)
ClassifyNext ==
  /\ pc = "run" /\ rem # {}
  /\ LET lam == MaxCred(M.M, rem)
         d == DistilP(M, rem, SOf(inst), lam, k, dir, TRUE)
         done == {a \in rem : d[a] # 0}
     IN /\ idx' = [a \in A3 |-> IF a \in done THEN k ELSE idx[a]]
        /\ rem' = rem \ done
        /\ lastLam' = lam
  /\ k' = k + 1 /\ UNCHANGED <<inst, M, dir, pc>>

Finish == pc = "run" /\ rem = {} /\ pc' = "done" /\ UNCHANGED <<inst, M, dir, rem, k, idx, lastLam>>

Next == Emit \/ ClassifyNext \/ Finish
Spec == Init /\ [][Next]_vars

(* ---- invariants ---- *)
Progress == [][(pc = "run" /\ rem # {}) => (rem' # rem /\ rem' \subseteq rem)]_vars
CutsNeverRise == [][(pc = "run" /\ rem # {}) => RLe(lastLam', lastLam)]_vars
ClassifiedOnce == \A a \in A3 : (a \in rem) = (idx[a] = 0)
Consecutive == {idx[a] : a \in A3 \ rem} = 1..(k - 1)
AgreesWithDefinition ==
  pc = "done" => idx = DistilP(M, A3, SOf(inst), MaxCred(M.M, A3), 1, dir, FALSE)
(* a row that outranks nobody and is outranked by nobody different... sanity: all-zero matrix = one class *)
ZeroMatrixOneClass == (pc = "done" /\ \A e \in P3 : inst.m[e] = 0) => \A a \in A3 : idx[a] = 1
=============================================================================
