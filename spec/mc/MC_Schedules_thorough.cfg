SPECIFICATION Spec
CONSTANTS
Gates = {22, 33, 23, 44, 24, 222, 232}
INVARIANTS Complete
CHECK_DEADLOCK FALSE
