--------------------------- MODULE MC_AspectElim ---------------------------
(* Bounded model of elimination by aspects (C12): every instance is emitted  *)
(* as a case, then the elimination runs one examined alternative per step    *)
(* and the design invariants are checked in every state.                      *)
EXTENDS AspectElim, Levels, Ranking, Req, Json, TLC

CONSTANTS MaxN, Vals, Sources, Extras

UNIT == 256
WPairs == {<<2, 1>>, <<1, 2>>, <<1, 1>>}
TypePairs == {<<"gain", "gain">>, <<"gain", "cost">>}

Instances == UNION {[n : {n}, vals : [1..n -> [1..2 -> Vals]], w : WPairs, types : TypePairs, src : Sources,
                     extra : Extras] : n \in 1..MaxN}

(* one extra known-but-not-considered alternative widens the observed ranges *)
NKnown(i) == i.n + i.extra
Tab(i) == [a \in 1..NKnown(i) |-> IF a > i.n THEN <<4 * UNIT, 4 * UNIT>> ELSE [j \in 1..2 |-> UNIT * i.vals[a][j]]]
CritsOf(i) == [j \in 1..2 |-> [id |-> CritName[j], type |-> i.types[j]]]
KnownOf(i) == KnownAlts(NKnown(i), 2, Tab(i))
WOf(i) == [c \in {"c1", "c2"} |-> UNIT * i.w[CritIdx(c)]]

(* explicit thresholds: two increasingly demanding levels (cost thresholds go down) *)
ThrOf(i) == << [c \in {"c1", "c2"} |-> UNIT * (IF i.types[CritIdx(c)] = "cost" THEN 1 ELSE 1)],
               [c \in {"c1", "c2"} |-> UNIT * (IF i.types[CritIdx(c)] = "cost" THEN 0 ELSE 2)] >>
MethodParams(i) ==
  LET base == [weights |-> WOf(i), randomSeed |-> 3] IN
  IF i.src = "thr" THEN base @@ [function |-> "thresholds", params |-> [thresholds |-> ThrOf(i)]]
  ELSE IF i.src = "add" THEN base @@ [function |-> "idealAdditiveCoefficient",
          params |-> [coefficient |-> UNIT \div 2, minValue |-> 0, maxValue |-> UNIT]]
  ELSE base @@ [function |-> "idealMultipliedCoefficient",
          params |-> [coefficient |-> UNIT \div 2, minValue |-> UNIT \div 4, maxValue |-> UNIT]]

LevelsOf(i) ==
  IF i.src = "thr" THEN ThrOf(i)
  ELSE IF i.src = "add" THEN LGenerated("inc", "idealAdditiveCoefficient", 0, LD, 1, 2, CritsOf(i), KnownOf(i))
  ELSE LGenerated("inc", "idealMultipliedCoefficient", LD \div 4, LD, 1, 2, CritsOf(i), KnownOf(i))

ReqOf(i) == [preferenceFunction |-> "aspectEliminationHeuristic",
             knownAlternatives |-> KnownOf(i),
             choseToMake |-> [k \in 1..i.n |-> AltName[k]],
             criteria |-> CritsOf(i), methodParameters |-> MethodParams(i), biases |-> <<>>]
CaseOf(i) == [id |-> "e", fam |-> "AspectElim", unit |-> UNIT, hook |-> TRUE, via |-> "http", expect |-> "ok",
              failprop |-> "C01", inst |-> i, req |-> ReqOf(i)]

(* criteria heaviest first; with equal weights the design picks the declared order (the real code *)
(* breaks the tie with its seeded generator - the trace side searches both orders)                 *)
COrder(i) == IF i.w[2] > i.w[1] THEN <<"c2", "c1">> ELSE <<"c1", "c2">>
CtxOf(i) == [levels |-> LevelsOf(i), corder |-> COrder(i),
             ty |-> [c \in {"c1", "c2"} |-> i.types[CritIdx(c)]],
             x |-> [a \in {AltName[k] : k \in 1..NKnown(i)} |-> [c \in {"c1", "c2"} |-> Tab(i)[AltIdx(a)][CritIdx(c)]]]]
OrderOf(i) == [k \in 1..i.n |-> AltName[k]]

VARIABLES inst, ctx, st, pc      \* ctx is CtxOf(inst), computed once per instance
vars == <<inst, ctx, st, pc>>
Init == inst \in Instances /\ ctx = CtxOf(inst) /\ st = AEInit(OrderOf(inst)) /\ pc = "emit"
Emit == pc = "emit" /\ PrintT(ToJson(<<CaseOf(inst)>>)) /\ pc' = "run" /\ UNCHANGED <<inst, ctx, st>>
Check == pc = "run" /\ ~AEDone(st, ctx) /\ st' = AEStep(st, ctx) /\ UNCHANGED <<inst, ctx, pc>>
Finish == pc = "run" /\ AEDone(st, ctx) /\ pc' = "done" /\ UNCHANGED <<inst, ctx, st>>
Next == Emit \/ Check \/ Finish
Spec == Init /\ [][Next]_vars

ElimSound == AEElimSound(st, ctx)
SurvivorsSound == AESurvivorsSound(st, ctx)
StopRule == AEStopRule(st)
Partition == AEPartition(st, OrderOf(inst))
(* a single considered alternative consumes no level *)
SingleConsumesNothing == (inst.n = 1) => st.used = 0
FinalRanking ==
  pc = "done" =>
    LET r == AERanking(st) IN
    /\ Len(r) = inst.n /\ NoDup([k \in DOMAIN r |-> r[k].id])
    /\ (Len(st.left) > 1 => st.used = Len(ctx.levels))
    /\ \A k \in 1..(Len(r) - 1) : r[k].level >= r[k+1].level
=============================================================================
