SPECIFICATION Spec
CONSTANTS
Clients = {"c1", "c2"}
Pool <- PoolDef
GuardDiverging = TRUE
SharedIterator = TRUE
KeepSched = TRUE
MaxOps = 3
CONSTRAINT Bounded
VIEW View
INVARIANTS Survives RegistryUntouched Isolation Deterministic StatusClass
CHECK_DEADLOCK FALSE
