---------------------------- MODULE AspectElim ----------------------------
(* Elimination by aspects as a state machine.  One step examines ONE         *)
(* remaining alternative against one (level, criterion) check (Go: the       *)
(* innermost loop body of checkWithinSatisfactionLevels).                    *)
(* ctx = [levels |-> seq of [crit -> threshold], corder |-> seq of criterion *)
(*        ids heaviest first, ty |-> type, x |-> [alt -> [crit -> value]]]   *)
(* state: li level index (1-based), ci criterion index, pass = alternatives   *)
(* of the current pass still to examine, left = survivors so far (in order),  *)
(* elim = eliminated entries in order of elimination, used = levels consumed  *)
EXTENDS Num

AEBelow(ctx, a, li, c) ==
  IF ctx.ty[c] = "cost" THEN ctx.x[a][c] > ctx.levels[li][c] ELSE ctx.x[a][c] < ctx.levels[li][c]

AEInit(order) == [li |-> 1, ci |-> 1, pass |-> order, left |-> order, elim |-> <<>>, used |-> 0,
                  stopped |-> Len(order) <= 1]

AEDone(s, ctx) == s.stopped \/ s.li > Len(ctx.levels)

AEStep(s, ctx) ==
  IF s.pass = <<>> THEN
       (* pass finished: next criterion, or next level *)
       IF s.ci < Len(ctx.corder) THEN [s EXCEPT !.ci = @ + 1, !.pass = s.left]
       ELSE [s EXCEPT !.li = @ + 1, !.ci = 1, !.pass = s.left]
  ELSE
    LET a == Head(s.pass)
        c == ctx.corder[s.ci]
        out == AEBelow(ctx, a, s.li, c)
        left2 == IF out THEN SelectSeq(s.left, LAMBDA b : b # a) ELSE s.left
        elim2 == IF out THEN Append(s.elim, [id |-> a, level |-> s.li - 1, crit |-> c,
                                             thr |-> ctx.levels[s.li][c], chk |-> <<s.li, s.ci>>])
                 ELSE s.elim
    IN [s EXCEPT !.pass = Tail(@), !.left = left2, !.elim = elim2, !.used = s.li,
                 !.stopped = Len(left2) <= 1]

RECURSIVE AERun(_, _)
AERun(s, ctx) == IF AEDone(s, ctx) THEN s ELSE AERun(AEStep(s, ctx), ctx)

(* ranking: survivors (level index = levels consumed, no threshold) then the eliminated in reverse *)
AERanking(s) ==
  [k \in 1..Len(s.left) |-> [id |-> s.left[k], level |-> s.used, crit |-> "", thr |-> 0, chk |-> <<0, 0>>]]
  \o [k \in 1..Len(s.elim) |-> s.elim[Len(s.elim) + 1 - k]]

(* ---- design invariants ---- *)
(* an eliminated alternative failed its recorded check and passed every earlier check *)
AEElimSound(s, ctx) ==
  \A k \in DOMAIN s.elim :
     LET e == s.elim[k] IN
     /\ AEBelow(ctx, e.id, e.chk[1], e.crit)
     /\ \A li \in 1..e.chk[1] : \A ci \in DOMAIN ctx.corder :
          (li < e.chk[1] \/ ci < e.chk[2]) => ~AEBelow(ctx, e.id, li, ctx.corder[ci])
(* survivors passed every completed check; elimination stops exactly when one is left *)
AESurvivorsSound(s, ctx) ==
  \A k \in DOMAIN s.left : \A li \in 1..(s.li - 1) : \A ci \in DOMAIN ctx.corder :
     li <= Len(ctx.levels) => (s.stopped \/ ~AEBelow(ctx, s.left[k], li, ctx.corder[ci]))
AEStopRule(s) == (Len(s.left) <= 1) = s.stopped
AEPartition(s, order) ==
  /\ SeqSet(s.left) \cup {s.elim[k].id : k \in DOMAIN s.elim} = SeqSet(order)
  /\ SeqSet(s.left) \cap {s.elim[k].id : k \in DOMAIN s.elim} = {}
  /\ NoDup([k \in DOMAIN s.elim |-> s.elim[k].id])
=============================================================================
