--------------------------- MODULE Satisfaction ---------------------------
(* The satisficing heuristic as a state machine.  One step examines one      *)
(* remaining alternative against the current aspiration level (Go: loop body *)
(* of checkWithinSatisfactionLevels in satisfaction.go).                      *)
(* ctx = [levels, C criteria set, ty, x, worst |-> [crit -> worst end of range]] *)
EXTENDS Num

SGood(ctx, a, li) ==
  \A c \in ctx.C : IF ctx.ty[c] = "cost" THEN ctx.x[a][c] <= ctx.levels[li][c]
                   ELSE ctx.x[a][c] >= ctx.levels[li][c]

SInit(order) == [li |-> 1, pass |-> order, left |-> order, acc |-> <<>>]
SDone(s, ctx) == s.li > Len(ctx.levels) \/ (s.left = <<>> /\ s.pass = <<>>)

SStep(s, ctx) ==
  IF s.pass = <<>> THEN [s EXCEPT !.li = @ + 1, !.pass = s.left]
  ELSE LET a == Head(s.pass)
           ok == SGood(ctx, a, s.li)
       IN [s EXCEPT !.pass = Tail(@),
                    !.left = IF ok THEN SelectSeq(@, LAMBDA b : b # a) ELSE @,
                    !.acc = IF ok THEN Append(@, [id |-> a, level |-> s.li - 1, thr |-> ctx.levels[s.li]]) ELSE @]

RECURSIVE SRun(_, _)
SRun(s, ctx) == IF SDone(s, ctx) THEN s ELSE SRun(SStep(s, ctx), ctx)

(* number of levels the iterator handed out: all of them unless everybody was accepted earlier *)
SConsumed(s, ctx) == IF s.li > Len(ctx.levels) THEN Len(ctx.levels) ELSE s.li

SRanking(s, ctx) ==
  s.acc \o [k \in 1..Len(s.left) |-> [id |-> s.left[k], level |-> SConsumed(s, ctx), thr |-> ctx.worst]]

(* ---- design invariants ---- *)
SAcceptedSound(s, ctx) ==
  \A k \in DOMAIN s.acc :
     /\ SGood(ctx, s.acc[k].id, s.acc[k].level + 1)
     /\ \A li \in 1..s.acc[k].level : ~SGood(ctx, s.acc[k].id, li)
SLeftSound(s, ctx) ==
  \A k \in DOMAIN s.left : \A li \in 1..(s.li - 1) : li <= Len(ctx.levels) => ~SGood(ctx, s.left[k], li)
SOrdered(s) == \A k \in 1..(Len(s.acc) - 1) : s.acc[k].level <= s.acc[k+1].level
SPartition(s, order) ==
  /\ SeqSet(s.left) \cup {s.acc[k].id : k \in DOMAIN s.acc} = SeqSet(order)
  /\ SeqSet(s.left) \cap {s.acc[k].id : k \in DOMAIN s.acc} = {}
=============================================================================
