------------------------------ MODULE Biases ------------------------------
(* Contracts of the bias stage, phrased over the hook events of one decision: *)
(* event e = [kind, index, fired, before, after, report, digests...] where     *)
(* before/after are pipeline states [criteria, considered, notConsidered,      *)
(* params, ...] and report is the entry the response will carry for that bias. *)
(* The decision-level state machine these steps belong to is Decision.tla.     *)
EXTENDS Methods, Importance

BFail(p, why, key) == [p |-> p, why |-> why, key |-> key]

(* the enabled biases of the request, in order; props default to the empty record *)
ReqBiases(o) == SelectSeq(o.case.req.biases, LAMBDA b : ~(Has(b, "disabled") /\ b.disabled))
BProb(b, u) == IF Has(b, "applyProbability") THEN b.applyProbability ELSE u
BProps(b) == IF Has(b, "props") THEN b.props ELSE <<>>

CritIdSeq(st) == [k \in DOMAIN st.criteria |-> st.criteria[k].id]
AllIds(st) == AltIdsOf(StAllAlts(st))
ValOfAlt(st, a, c) == AltById(StAllAlts(st), a).criteria[c]

(* ---------------- C07: coherence and frame conditions ---------------- *)
(* every known alternative has a value for exactly the current criteria *)
ValuesCoherent(st) ==
  \A k \in DOMAIN StAllAlts(st) : DOMAIN StAllAlts(st)[k].criteria = StCritIds(st)
SplitSame(s1, s2) ==
  /\ [k \in DOMAIN s1.considered |-> s1.considered[k].id] = [k \in DOMAIN s2.considered |-> s2.considered[k].id]
  /\ [k \in DOMAIN s1.notConsidered |-> s1.notConsidered[k].id] = [k \in DOMAIN s2.notConsidered |-> s2.notConsidered[k].id]

(* criteria a bias reports as removed / added *)
ReportedRemoved(name, rep) ==
  IF name = "criteriaOmission" /\ Has(rep, "omittedCriteria") THEN {rep.omittedCriteria[k].id : k \in DOMAIN rep.omittedCriteria} ELSE {}
ReportedAdded(name, rep) ==
  IF name = "criteriaConcealment" /\ Has(rep, "addedCriteria") THEN {rep.addedCriteria[k].id : k \in DOMAIN rep.addedCriteria}
  ELSE IF name = "criteriaMixing" /\ Has(rep, "newCriterion") THEN {rep.newCriterion.id}
  ELSE IF name = "anchoring" /\ Has(rep, "applierResult") /\ Has(rep.applierResult, "addedCriteria")
       THEN {rep.applierResult.addedCriteria[k].id : k \in DOMAIN rep.applierResult.addedCriteria}
  ELSE {}

(* which values a bias may deliberately rewrite: "all", a set of criteria, or nothing *)
MayRewrite(name, rep, p) ==
  IF name = "fatigue" THEN "all"
  ELSE IF name = "anchoring" /\ Has(p, "applier") /\ p.applier.function = "inline" THEN "all"
  ELSE "listed"
RewrittenSet(name, rep) ==
  IF name = "preferenceReversal" /\ Has(rep, "reversedPreferenceCriteria")
  THEN {rep.reversedPreferenceCriteria[k].id : k \in DOMAIN rep.reversedPreferenceCriteria} ELSE {}

(* the state a bias step started from: what the previous step handed on (the parsed state for the first) *)
BeforeOf(o, k) == IF k = 1 THEN ParsedState(o) ELSE BiasEvents(o)[k-1].after

(* the method's options that are not per-criterion data (policies, seeds, current choice, level function, distillation *)
(* function) pass through every bias unchanged                                                                      *)
OptionFields == {"CurrentChoice", "DrawResolution", "RandomSeed", "RandomAlternativesOrdering", "Function", "DistillationFun"}
OptionsSame(s1, s2) ==
  \A f \in OptionFields : (f \in DOMAIN s1.params) = (f \in DOMAIN s2.params) /\ (f \in DOMAIN s1.params => s1.params[f] = s2.params[f])
HasParamsRecord(st) == DOMAIN st.params # {} /\ \A f \in DOMAIN st.params : f \in STRING

C07Event(o, k, b) ==
  LET e == BiasEvents(o)[k]
      name == b.name
      rep == e.report.props
      p == BProps(b)
      before == BeforeOf(o, k)
      after == e.after
      kept == StCritIds(before) \cap StCritIds(after)
  IN (IF ValuesCoherent(after) THEN {} ELSE {BFail("C07", "values-incoherent", "")})
     \cup (IF Has(e, "probeEval") => (e.probeEval /\ e.probeRank) THEN {} ELSE {BFail("C07", "params-incoherent", "")})
     \cup (IF SplitSame(before, after) THEN {} ELSE {BFail("C07", "split-changed", "")})
     \cup (IF OptionsSame(before, after) THEN {} ELSE {BFail("C07", "method-options-changed", "")})
     \cup (IF ~e.fired THEN (IF before = after THEN {} ELSE {BFail("C07", "skip-changed-state", "")})
           ELSE (IF StCritIds(before) \ StCritIds(after) = ReportedRemoved(name, rep)
                    /\ StCritIds(after) \ StCritIds(before) = ReportedAdded(name, rep)
                 THEN {} ELSE {BFail("C07", "criteria-delta-unreported", "")})
                \cup (IF MayRewrite(name, rep, p) = "all" \/ ~ValuesCoherent(before) \/ ~ValuesCoherent(after) \/ o.overflow > 0
                         \/ \A a \in AllIds(before) : \A c \in kept \ RewrittenSet(name, rep) :
                               a \in AllIds(after) /\ ValOfAlt(before, a, c) = ValOfAlt(after, a, c)
                      THEN {} ELSE {BFail("C07", "earlier-values-lost", "")}))

(* ---------------- C08: switches and probabilities ---------------- *)
C08Line(o) ==
  LET rb == ReqBiases(o)
      u == o.case.unit
      ob == o.resp.biases
      evs == BiasEvents(o)
  IN (IF Len(ob) = Len(rb) /\ \A k \in DOMAIN rb :
            Has(ob[k], "name") /\ Has(ob[k], "applyProbability") /\ Has(ob[k], "props")
            /\ ob[k].name = rb[k].name /\ ob[k].applyProbability = BProb(rb[k], u)
      THEN {} ELSE {BFail("C08", "echo", "")})
     \cup (IF Len(evs) # Len(rb) THEN {BFail("C08", "events", "")}
           ELSE (IF \A k \in DOMAIN rb :
                       /\ (BProb(rb[k], u) >= u => evs[k].fired)
                       /\ (BProb(rb[k], u) <= 0 => ~evs[k].fired)
                       /\ (~evs[k].fired => (Has(ob[k], "props") /\ Has(ob[k].props, "isnull") /\ BeforeOf(o, k) = evs[k].after))
                 THEN {} ELSE {BFail("C08", "fire-rule", "")}))

(* ---------------- C09: reports faithful, nothing modified after the fact ---------------- *)
C09Line(o) ==
  (IF o.status # 200 \/ \A k \in DOMAIN o.events :
        /\ o.events[k].stDigAt = o.events[k].stDigEnd
        /\ o.events[k].origDigAt = o.events[k].origDigEnd
        /\ (o.events[k].kind = "bias" => o.events[k].repDigAt = o.events[k].repDigEnd)
   THEN {} ELSE {BFail("C09", "modified-after-handover", "")})
  \cup (IF o.reqDigBefore = o.reqDigAfter /\ o.reqHdrBefore = o.reqHdrAfter THEN {} ELSE {BFail("C09", "request-modified", "")})
  \cup (IF o.keptChanged = 0 THEN {} ELSE {BFail("C09", "earlier-result-modified", "")})

(* ---------------- shared: exactness of the state a bias starts from ---------------- *)
ExactKinds == {"criteriaOmission", "preferenceReversal"}
(* TRUE iff no earlier bias of this decision produced seeded real numbers: the data are on the grid *)
ExactBefore(o, k) == \A j \in 1..(k - 1) : ~BiasEvents(o)[j].fired \/ ReqBiases(o)[j].name \in ExactKinds

PGet(p, f, def) == IF Has(p, f) THEN p[f] ELSE def
MaxInt == 1000000
(* ranges: declared, else observed over all known alternatives of the state *)
RangeOf(st, c) == LRange(StCrit(st, c), StAllAlts(st))
Slack == 2
Near(a, b, s) == a - b <= s /\ b - a <= s

(* count / ordering rule of omission and reversal *)
SplitK(o, p, n) == SplitCount(n, PGet(p, "ratio", 0), o.case.unit, PGet(p, "min", 0), PGet(p, "max", MaxInt))
OrderingOf(p) == IF Has(p, "ordering") /\ p.ordering # "" THEN p.ordering ELSE "weakest"
OrderingOK(o, k, before, sel, rest, p) ==
  LET m == Method(o) IN
  IF ~ExactBefore(o, k) THEN TRUE
  ELSE IF OrderingOf(p) = "weakest" THEN \A x \in sel : \A y \in rest : Imp(m, before, x) <= Imp(m, before, y)
  ELSE IF OrderingOf(p) = "strongest" THEN \A x \in sel : \A y \in rest : Imp(m, before, x) >= Imp(m, before, y)
  ELSE TRUE

(* the deterministic orderings as sequences: weakest = stable ascending sort of the declared order by importance, *)
(* strongest = its exact reverse; the criteria a bias selects are the first k of the ordering, in that order       *)
RevSeq(q) == [i \in DOMAIN q |-> q[Len(q) + 1 - i]]
ImpMap(o, st) == [c \in StCritIds(st) |-> Imp(Method(o), st, c)]
OrderingSeq(o, st, ordname) ==
  LET w == StableAsc(CritIdSeq(st), ImpMap(o, st)) IN IF ordname = "strongest" THEN RevSeq(w) ELSE w
SelectedSeqOK(o, k, before, selseq, p) ==
  (ExactBefore(o, k) /\ OrderingOf(p) \in {"weakest", "strongest"} /\ SeqSet(selseq) \subseteq StCritIds(before) /\ NoDup(selseq)) =>
     selseq = SubSeq(OrderingSeq(o, before, OrderingOf(p)), 1, Len(selseq))

(* ---------------- C15: criteria omission ---------------- *)
C15Event(o, k, b) ==
  LET e == BiasEvents(o)[k]
      p == BProps(b)
      before == BeforeOf(o, k)
      after == e.after
      rep == e.report.props
  IN IF ~e.fired THEN {}
     ELSE IF ~Has(rep, "omittedCriteria") THEN {BFail("C15", "no-report", "")}
     ELSE
       LET om == [j \in DOMAIN rep.omittedCriteria |-> rep.omittedCriteria[j].id]
           n == Len(before.criteria)
       IN (IF Len(om) = SplitK(o, p, n) THEN {} ELSE {BFail("C15", "count", "")})
          \cup (IF NoDup(om) /\ SeqSet(om) \subseteq StCritIds(before) THEN {} ELSE {BFail("C15", "omitted-not-declared", "")})
          \cup (IF StCritIds(after) = StCritIds(before) \ SeqSet(om) /\ NoDup(CritIdSeq(after)) THEN {} ELSE {BFail("C15", "partition", "")})
          \cup (IF ~(SeqSet(om) \subseteq StCritIds(before)) \/ OrderingOK(o, k, before, SeqSet(om), StCritIds(before) \ SeqSet(om), p)
                THEN {} ELSE {BFail("C15", "importance-order", "")})
          \cup (IF SelectedSeqOK(o, k, before, om, p) THEN {} ELSE {BFail("C15", "not-the-front-of-the-ordering", "")})
          \cup (IF ValuesCoherent(after) /\ (Has(e, "probeEval") => (e.probeEval /\ e.probeRank)) THEN {} ELSE {BFail("C15", "not-restricted", "")})

(* ---------------- C16: preference reversal ---------------- *)
C16Event(o, k, b) ==
  LET e == BiasEvents(o)[k]
      p == BProps(b)
      before == BeforeOf(o, k)
      after == e.after
      rep == e.report.props
  IN IF ~e.fired THEN {}
     ELSE IF ~Has(rep, "reversedPreferenceCriteria") THEN {BFail("C16", "no-report", "")}
     ELSE
       LET rc == rep.reversedPreferenceCriteria
           sel == [j \in DOMAIN rc |-> rc[j].id]
           n == Len(before.criteria)
           okIds == NoDup(sel) /\ SeqSet(sel) \subseteq StCritIds(before)
           coherent == ValuesCoherent(before) /\ ValuesCoherent(after) /\ AllIds(before) = AllIds(after)
       IN (IF Len(sel) = SplitK(o, p, n) THEN {} ELSE {BFail("C16", "count", "")})
          \cup (IF okIds THEN {} ELSE {BFail("C16", "selected-not-declared", "")})
          \cup (IF ~okIds \/ OrderingOK(o, k, before, SeqSet(sel), StCritIds(before) \ SeqSet(sel), p)
                THEN {} ELSE {BFail("C16", "importance-order", "")})
          \cup (IF ~okIds \/ SelectedSeqOK(o, k, before, sel, p) THEN {} ELSE {BFail("C16", "not-the-front-of-the-ordering", "")})
          \cup (IF after.criteria = before.criteria /\ after.params = before.params THEN {} ELSE {BFail("C16", "criteria-or-params-changed", "")})
          \cup (IF ~(okIds /\ coherent) THEN {}
                ELSE (IF \A j \in DOMAIN rc :
                            LET rg == RangeOf(before, rc[j].id)
                                sl == IF ExactBefore(o, k) THEN 0 ELSE Slack      \* earlier seeded real numbers: rounding slack
                            IN
                            /\ Near(rc[j].valuesRange.min, rg.min, sl) /\ Near(rc[j].valuesRange.max, rg.max, sl)
                            /\ \A a \in AllIds(before) :
                                  Near(ValOfAlt(after, a, rc[j].id), rg.max + rg.min - ValOfAlt(before, a, rc[j].id), sl)
                      THEN {} ELSE {BFail("C16", "mirror", "")})
                     \cup (IF \A j \in DOMAIN rc : \A a \in AllIds(after) :
                                 a \in DOMAIN rc[j].alternativesValues /\ rc[j].alternativesValues[a] = ValOfAlt(after, a, rc[j].id)
                           THEN {} ELSE {BFail("C16", "report-differs", ""), BFail("C09", "report-differs", "")})
                     \cup (IF \A c \in StCritIds(before) \ SeqSet(sel) : \A a \in AllIds(before) :
                                 ValOfAlt(after, a, c) = ValOfAlt(before, a, c)
                           THEN {} ELSE {BFail("C16", "unselected-changed", "")}))

(* two consecutive reversals of all criteria restore the data *)
C16Double(o) ==
  LET evs == BiasEvents(o) rb == ReqBiases(o) IN
  IF \E k \in 1..(Len(evs) - 1) :
        /\ k + 1 <= Len(rb) /\ rb[k].name = "preferenceReversal" /\ rb[k+1].name = "preferenceReversal"
        /\ evs[k].fired /\ evs[k+1].fired
        /\ PGet(BProps(rb[k]), "ratio", 0) = o.case.unit /\ PGet(BProps(rb[k+1]), "ratio", 0) = o.case.unit
        /\ ~Has(BProps(rb[k]), "max") /\ ~Has(BProps(rb[k+1]), "max")
        /\ ValuesCoherent(BeforeOf(o, k)) /\ ValuesCoherent(evs[k+1].after)
        /\ \E a \in AllIds(BeforeOf(o, k)) : \E c \in StCritIds(BeforeOf(o, k)) :
              ValOfAlt(evs[k+1].after, a, c) # ValOfAlt(BeforeOf(o, k), a, c)
  THEN {BFail("C16", "not-involutive", "")} ELSE {}

(* ---------------- bounding shared by fatigue, concealment, anchoring ---------------- *)
(* p: the record holding allowedValuesRangeScaling / disallowNegativeValues; rg: [min,max]; u: unit *)
BScale(p, u) == PGet(p, "allowedValuesRangeScaling", 0 - u)
BNoNeg(p) == PGet(p, "disallowNegativeValues", FALSE)
BActive(p, u) == BScale(p, u) > 0 \/ BNoNeg(p)
(* scaled range about the centre, as a pair of bounds doubled to stay in integers: 2*lo, 2*hi *)
BRange2(p, rg, u) ==
  LET sc == BScale(p, u)
      d2 == rg.max - rg.min                      \* 2 * half-width
  IN IF sc = u THEN [lo |-> 2 * rg.min, hi |-> 2 * rg.max]
     ELSE [lo |-> 2 * rg.min + d2 - (d2 * sc) \div u, hi |-> 2 * rg.max - d2 + (d2 * sc) \div u]
(* monotone bounding of a doubled value x2 *)
Bound2(p, rg, u, x2) ==
  LET y == IF BNoNeg(p) /\ x2 < 0 THEN 0 ELSE x2 IN
  IF BScale(p, u) <= 0 THEN y
  ELSE LET r == BRange2(p, rg, u)
           y1 == IF y < r.lo THEN r.lo ELSE y     \* raised to the lower bound first, then cut at the upper one
       IN IF y1 > r.hi THEN r.hi ELSE y1

(* ---------------- C17: fatigue ---------------- *)
C17Event(o, k, b) ==
  LET e == BiasEvents(o)[k]
      p == BProps(b)
      u == o.case.unit
      before == BeforeOf(o, k)
      after == e.after
      rep == e.report.props
  IN IF ~e.fired THEN {}
     ELSE IF ~Has(rep, "effectiveFatigueRatio") THEN {BFail("C17", "no-report", "")}
     ELSE
       LET f == rep.effectiveFatigueRatio
           coherent == ValuesCoherent(before) /\ ValuesCoherent(after) /\ AllIds(before) = AllIds(after)
                       /\ StCritIds(before) = StCritIds(after)
           isConst == PGet(p, "function", "") = "const"
           within(a, c) ==
             LET v == ValOfAlt(before, a, c)
                 w == ValOfAlt(after, a, c)
                 dev == (NAbs(f) * NAbs(v)) \div u + Slack
                 rg == RangeOf(before, c)
             IN /\ 2 * w >= Bound2(p, rg, u, 2 * (v - dev)) - 2 * Slack
                /\ 2 * w <= Bound2(p, rg, u, 2 * (v + dev)) + 2 * Slack
           listSame(repl, stl) ==
             /\ Len(repl) = Len(stl)
             /\ \A j \in DOMAIN repl : repl[j].id = stl[j].id /\ repl[j].criteria = stl[j].criteria
           fp == PGet(p, "params", <<>>)
           (* multiplier x (e^(alpha x queryNumber) - 1) is 0 whenever one of the three is 0 or left out *)
           expIsZero == PGet(p, "function", "") = "expFromZero"
                        /\ (PGet(fp, "multiplier", 0) = 0 \/ PGet(fp, "alpha", 0) = 0 \/ PGet(fp, "queryNumber", 0) = 0)
       IN (IF ~isConst \/ Near(f, PGet(PGet(p, "params", <<>>), "value", 0), 0) THEN {} ELSE {BFail("C17", "ratio", "")})
          \cup (IF expIsZero => f = 0 THEN {} ELSE {BFail("C17", "ratio", "")})
          (* ... and it has the sign of multiplier x alpha x queryNumber otherwise (e^x - 1 has the sign of x); a product *)
          (* of magnitude above one unit cannot round to 0                                                       *)
          \cup (IF PGet(p, "function", "") = "expFromZero" /\ ~expIsZero
                   /\ LET mu == PGet(fp, "multiplier", 0) al == PGet(fp, "alpha", 0) q == PGet(fp, "queryNumber", 0)
                           pos == (mu > 0) = ((al > 0) = (q > 0))
                       IN (NAbs(al) >= u \div 16 /\ NAbs(mu) >= u \div 4) /\ ~(IF pos THEN f > 0 ELSE f < 0)
                THEN {BFail("C17", "ratio-sign", "")} ELSE {})
          \cup (IF after.criteria = before.criteria /\ after.params = before.params THEN {} ELSE {BFail("C17", "criteria-or-params-changed", "")})
          \cup (IF ~coherent THEN {BFail("C17", "coverage", "")}
                ELSE (IF \A a \in AllIds(before) : \A c \in StCritIds(before) : within(a, c) THEN {} ELSE {BFail("C17", "bound", "")})
                     \cup (IF (f = 0 /\ ~BActive(p, u)) =>
                                \A a \in AllIds(before) : \A c \in StCritIds(before) : ValOfAlt(after, a, c) = ValOfAlt(before, a, c)
                           THEN {} ELSE {BFail("C17", "zero-ratio-changed-data", "")})
                     \cup (IF ~BActive(p, u) =>
                                \A a \in AllIds(before) : \A c \in StCritIds(before) : ValOfAlt(before, a, c) = 0 => ValOfAlt(after, a, c) = 0
                           THEN {} ELSE {BFail("C17", "zero-value-moved", "")}))
          \cup (IF Has(rep, "consideredAlternatives") /\ Has(rep, "notConsideredAlternatives")
                   /\ listSame(rep.consideredAlternatives, after.considered)
                   /\ listSame(rep.notConsideredAlternatives, after.notConsidered)
                THEN {} ELSE {BFail("C17", "report-differs", ""), BFail("C09", "report-differs", "")})

(* both blur directions occur among the clearly moved values of one decision (>= 30 of them: 2^-29 false alarm per decision) *)
C17Directions(o) ==
  LET evs == BiasEvents(o) rb == ReqBiases(o) u == o.case.unit IN
  IF \E k \in DOMAIN evs :
       /\ k <= Len(rb) /\ rb[k].name = "fatigue" /\ evs[k].fired /\ ~BActive(BProps(rb[k]), u)
       /\ ValuesCoherent(BeforeOf(o, k)) /\ ValuesCoherent(evs[k].after) /\ AllIds(BeforeOf(o, k)) = AllIds(evs[k].after)
       /\ StCritIds(BeforeOf(o, k)) = StCritIds(evs[k].after)
       /\ LET before == BeforeOf(o, k)
              after == evs[k].after
              cells == AllIds(before) \X StCritIds(before)
              up == {x \in cells : ValOfAlt(after, x[1], x[2]) > ValOfAlt(before, x[1], x[2]) + Slack}
              down == {x \in cells : ValOfAlt(after, x[1], x[2]) < ValOfAlt(before, x[1], x[2]) - Slack}
          IN Cardinality(up) + Cardinality(down) >= 30 /\ (up = {} \/ down = {})
  THEN {BFail("C17", "one-direction-only", "")} ELSE {}

(* ---------------- reference criterion of the importanceRatio strategy ---------------- *)
(* the default strategy: criteria ranked weakest first by the method's importance; the first one whose cumulated *)
(* importance reaches newCriterionImportance x total (default 0), else the last one                              *)
RefStrategy(p) == IF Has(p, "referenceCriterionType") /\ p.referenceCriterionType # "" THEN p.referenceCriterionType ELSE "importanceRatio"
(* cum >= rn/u x total without leaving TLC's 32-bit integers: total = q u + r, 0 <= r < u, 0 <= rn <= u *)
ReachesShare(cum, rn, total, u) ==
  LET q == total \div u
      r == total % u
      d == cum - rn * q
  IN IF d >= u THEN TRUE ELSE IF d < 0 THEN FALSE ELSE d * u >= rn * r
RECURSIVE CumRef(_, _, _, _, _, _, _)
CumRef(seq, key, i, cum, rn, total, u) ==
  IF i > Len(seq) THEN seq[Len(seq)]
  ELSE LET c == cum + key[seq[i]] IN IF ReachesShare(c, rn, total, u) THEN seq[i] ELSE CumRef(seq, key, i + 1, c, rn, total, u)
ImportanceRef(o, st, p) ==
  LET u == o.case.unit
      key == ImpMap(o, st)
      seq == StableAsc(CritIdSeq(st), key)
      total == SumOver(StCritIds(st), LAMBDA c : key[c])
  IN CumRef(seq, key, 1, 0, PGet(p, "newCriterionImportance", 0), total, u)
SmallImportances(o, st) == \A c \in StCritIds(st) : NAbs(Imp(Method(o), st, c)) < 100000000
(* the strategy fixes the reference criterion: exact data, dyadic unit (sums and products are exact in floats too) *)
RefKnown(o, k, p) ==
  /\ RefStrategy(p) = "importanceRatio" /\ ExactBefore(o, k) /\ o.case.unit \in {256, 1024}
  /\ PGet(p, "newCriterionImportance", 0) \in 0..o.case.unit /\ SmallImportances(o, BeforeOf(o, k))

(* ---------------- C18: criteria concealment ---------------- *)
(* weight the method's parameters hold for criterion c, for the weight-based methods; -1 if none *)
WeightIn(method, st, c) ==
  IF method = "weightedSum" THEN (IF \E i \in DOMAIN st.params.weightedCriteria : st.params.weightedCriteria[i].Criterion.Id = c
                                  THEN SeqWeight(st.params.weightedCriteria, c) ELSE 0 - 1)
  ELSE IF method = "owa" THEN (IF \E i \in DOMAIN st.params.Weights : st.params.Weights[i].Criterion.Id = c
                               THEN SeqWeight(st.params.Weights, c) ELSE 0 - 1)
  ELSE IF method \in {"majorityHeuristic", "aspectEliminationHeuristic"} THEN (IF c \in DOMAIN st.params.Weights THEN st.params.Weights[c] ELSE 0 - 1)
  ELSE IF method = "electreIII" THEN (IF c \in DOMAIN st.params.Criteria THEN st.params.Criteria[c].K ELSE 0 - 1)
  ELSE 0 - 1
WeightBased(method) == method \in {"weightedSum", "owa", "majorityHeuristic", "aspectEliminationHeuristic", "electreIII"}

(* range scaled about its centre by sc/u, as doubled bounds *)
Scaled2(rg, sc, u) ==
  LET d2 == rg.max - rg.min IN [lo |-> 2 * rg.min + d2 - (d2 * sc) \div u, hi |-> 2 * rg.max - d2 + (d2 * sc) \div u]
Hull2(r) == [lo |-> NMin(r.lo, r.hi), hi |-> NMax(r.lo, r.hi)]

(* shape every criterion-adding step must have: one new id appended, values for everybody, old data untouched *)
AddedShapeOK(before, after, newIds) ==
  /\ NoDup(newIds) /\ SeqSet(newIds) \cap StCritIds(before) = {}
  /\ CritIdSeq(after) = CritIdSeq(before) \o newIds
  /\ ValuesCoherent(after)
  /\ AllIds(after) = AllIds(before)

(* criteria whose range, scaled as configured, is the reported range of the concealed criterion: the candidates *)
(* for the reference criterion of bias step k                                                                   *)
ConcealRefs(o, k, b) ==
  LET e == BiasEvents(o)[k]
      before == BeforeOf(o, k)
      rep == e.report.props
      u == o.case.unit
      sc == PGet(BProps(b), "newCriterionScaling", u)
  IN IF ~e.fired \/ ~Has(rep, "addedCriteria") \/ Len(rep.addedCriteria) # 1 THEN {}
     ELSE LET ac == rep.addedCriteria[1] IN
          {c \in StCritIds(before) :
              LET r == Scaled2(RangeOf(before, c), sc, u) IN
              Near(2 * ac.valuesRange.min, r.lo, 2 * Slack) /\ Near(2 * ac.valuesRange.max, r.hi, 2 * Slack)}

(* frequencies of the seeded strategies over n runs that differ in newCriterionRandomSeed only; three criteria  *)
(* c1 < c2 < c3 with importance 1 : 4 : 16 and pairwise different ranges.  randomUniform: every criterion about *)
(* n/3 times (n/8 is more than five standard deviations); randomWeighted: weight = min/importance, hence       *)
(* 16 : 4 : 1 - the weakest criterion most often                                                                *)
C18FreqOK(strategy, n1, n2, n3, n) ==
  IF strategy = "randomUniform" THEN \A x \in {n1, n2, n3} : 8 * x >= 8 * (n \div 3) - n /\ 8 * x <= 8 * (n \div 3) + n + 8
  ELSE n1 + n2 + n3 = n /\ n1 > n2 /\ n2 > n3 /\ 2 * n1 > n

C18Conceal(o, k, b) ==
  LET e == BiasEvents(o)[k]
      p == BProps(b)
      u == o.case.unit
      m == Method(o)
      before == BeforeOf(o, k)
      after == e.after
      rep == e.report.props
  IN IF ~e.fired THEN {}
     ELSE IF ~Has(rep, "addedCriteria") \/ Len(rep.addedCriteria) # 1 THEN {BFail("C18", "not-exactly-one-added", "")}
     ELSE
       LET ac == rep.addedCriteria[1]
           sc == PGet(p, "newCriterionScaling", u)
           shape == AddedShapeOK(before, after, <<ac.id>>) /\ ValuesCoherent(before)
           (* candidate reference criteria: those whose scaled range is the reported range *)
           refs == {c \in StCritIds(before) :
                      LET r == Scaled2(RangeOf(before, c), sc, u) IN
                      Near(2 * ac.valuesRange.min, r.lo, 2 * Slack) /\ Near(2 * ac.valuesRange.max, r.hi, 2 * Slack)}
           newrg == ac.valuesRange
           h == Hull2([lo |-> 2 * newrg.min, hi |-> 2 * newrg.max])
           inRange(a) ==
             LET w == ValOfAlt(after, a, ac.id) IN
             /\ 2 * w >= Bound2(p, newrg, u, h.lo) - 2 * Slack
             /\ 2 * w <= Bound2(p, newrg, u, h.hi) + 2 * Slack
           wnew == WeightIn(m, after, ac.id)
       IN (IF ac.type = "gain" THEN {} ELSE {BFail("C18", "not-gain", "")})
          \cup (IF shape THEN {} ELSE {BFail("C18", "shape", "")})
          \cup (IF refs # {} THEN {} ELSE {BFail("C18", "no-reference-criterion", "")})
          \cup (IF refs # {} /\ RefKnown(o, k, p) /\ ImportanceRef(o, before, p) \notin refs
                THEN {BFail("C18", "reference-not-chosen-by-configured-strategy", "")} ELSE {})
          \cup (IF ~shape THEN {}
                ELSE (IF \A a \in AllIds(after) : inRange(a) THEN {} ELSE {BFail("C18", "value-out-of-range", "")})
                     \cup (IF \A a \in AllIds(after) : a \in DOMAIN ac.alternativesValues /\ ac.alternativesValues[a] = ValOfAlt(after, a, ac.id)
                           THEN {} ELSE {BFail("C18", "report-differs", ""), BFail("C09", "report-differs", "")})
                     \cup (IF ~WeightBased(m) \/ refs = {} THEN {}
                           ELSE IF \E c \in refs : wnew >= 0 /\ wnew <= WeightIn(m, before, c) + Slack
                                   /\ (WeightIn(m, before, c) > Slack => wnew < WeightIn(m, before, c) + Slack)
                           THEN {} ELSE {BFail("C18", "new-weight-not-a-fraction-of-reference", "")})
                     \cup (IF \A c \in StCritIds(before) : WeightIn(m, after, c) = WeightIn(m, before, c)
                           THEN {} ELSE {BFail("C18", "old-parameters-changed", "")}))

(* ---------------- C18: criteria mixing ---------------- *)
C18Mix(o, k, b) ==
  LET e == BiasEvents(o)[k]
      p == BProps(b)
      u == o.case.unit
      m == Method(o)
      before == BeforeOf(o, k)
      after == e.after
      rep == e.report.props
      ratio == PGet(p, "mixingRatio", u \div 2)
  IN IF ~e.fired THEN {}
     ELSE IF Len(before.criteria) < 2 THEN (IF before = after THEN {} ELSE {BFail("C18", "mixed-with-one-criterion", "")})
     ELSE IF ~(Has(rep, "component1") /\ Has(rep, "component2") /\ Has(rep, "newCriterion")) THEN {BFail("C18", "no-report", "")}
     ELSE
       LET c1 == rep.component1 c2 == rep.component2 nc == rep.newCriterion
           shape == AddedShapeOK(before, after, <<nc.id>>) /\ ValuesCoherent(before)
           comps == c1.id # c2.id /\ c1.id \in StCritIds(before) /\ c2.id \in StCritIds(before)
           (* rescaling of criterion c into [0, T]: (v - min) T / diff, cost inverted; checked cross-multiplied *)
           rescOK(comp, T) ==
             LET rg == RangeOf(before, comp.id)
                 diff == rg.max - rg.min
                 ty == StCrit(before, comp.id).type
             IN \A a \in AllIds(before) :
                  a \in DOMAIN comp.scaledValues /\
                  LET v == ValOfAlt(before, a, comp.id)
                      num == IF ty = "cost" THEN rg.max - v ELSE v - rg.min
                  IN IF ~ExactBefore(o, k) /\ NAbs(diff) <= 2 * Slack THEN TRUE      \* range below the resolution of the recorded integers
                     ELSE IF diff = 0 THEN Near(comp.scaledValues[a], 0, Slack)
                     (* comp = num * T / diff, compared cross-multiplied; every operand carries a rounding error of one unit *)
                     ELSE Near(comp.scaledValues[a] * diff, num * T, 2 * (NAbs(diff) + NAbs(comp.scaledValues[a]) + T) + 4)
           targetOf(c) == LET rg == RangeOf(before, c) IN NMax(NMax(NAbs(rg.min), NAbs(rg.max)), rg.max - rg.min)
           targets == {targetOf(c) : c \in StCritIds(before)}
       IN (IF nc.type = "gain" THEN {} ELSE {BFail("C18", "not-gain", "")})
          \cup (IF shape THEN {} ELSE {BFail("C18", "shape", "")})
          \cup (IF comps THEN {} ELSE {BFail("C18", "components", "")})
          \cup (IF ~(shape /\ comps) THEN {}
                ELSE (IF \A a \in AllIds(after) :
                            /\ a \in DOMAIN nc.scaledValues /\ a \in DOMAIN c1.scaledValues /\ a \in DOMAIN c2.scaledValues
                            /\ Near(nc.scaledValues[a] * u, ratio * c1.scaledValues[a] + (u - ratio) * c2.scaledValues[a], 2 * u)
                      THEN {} ELSE {BFail("C18", "mix-formula", "")})
                     \cup (IF \A a \in AllIds(after) : a \in DOMAIN nc.scaledValues /\ nc.scaledValues[a] = ValOfAlt(after, a, nc.id)
                           THEN {} ELSE {BFail("C18", "report-differs", ""), BFail("C09", "report-differs", "")})
                     \cup (IF \E T \in targets : rescOK(c1, T) /\ rescOK(c2, T) THEN {} ELSE {BFail("C18", "rescaling", "")})
                     \cup (IF RefKnown(o, k, p) /\ (\E T \in targets : rescOK(c1, T) /\ rescOK(c2, T))
                              /\ ~(rescOK(c1, targetOf(ImportanceRef(o, before, p))) /\ rescOK(c2, targetOf(ImportanceRef(o, before, p))))
                           THEN {BFail("C18", "reference-not-chosen-by-configured-strategy", "")} ELSE {})
                     \cup (IF \A c \in StCritIds(before) : WeightIn(m, after, c) = WeightIn(m, before, c)
                           THEN {} ELSE {BFail("C18", "old-parameters-changed", "")})
                     \cup (IF ~WeightBased(m) \/ (WeightIn(m, after, nc.id) >= 0 /\ \E c \in StCritIds(before) : WeightIn(m, after, nc.id) <= WeightIn(m, before, c) + Slack)
                           THEN {} ELSE {BFail("C18", "new-weight-not-a-fraction-of-reference", "")}))


(* ---------------- C19: anchoring ---------------- *)
(* measure by which the anchoring alternatives are compared on criterion c: value x coefficient for  *)
(* gain, value / coefficient for cost (compared cross-multiplied); ideal takes the best, nadir the   *)
(* worst.  Ties in the measure leave the supplier of the reference value open, so the contract is    *)
(* membership in the set of admissible reference values.                                             *)
(* alternative 1 better than alternative 2 by more than the margin mg (0 on exact data; the rounding error of the *)
(* recorded values otherwise, so that near-ties leave the supplier of the reference value open as well)         *)
AnchorBetterM(ty, v1, k1, v2, k2, mg) ==
  IF ty = "cost" THEN v1 * k2 < v2 * k1 - mg * (k1 + k2) ELSE v1 * k1 > v2 * k2 + mg * (k1 + k2)
AnchorBetter(ty, v1, k1, v2, k2) == AnchorBetterM(ty, v1, k1, v2, k2, 0)
AnchorAdmissibleM(ty, aa, vals, strat, mg) ==
  {vals[aa[i].alternative] : i \in {i \in DOMAIN aa :
      \A j \in DOMAIN aa :
         IF strat = "ideal"
         THEN ~AnchorBetterM(ty, vals[aa[j].alternative], aa[j].coefficient, vals[aa[i].alternative], aa[i].coefficient, mg)
         ELSE ~AnchorBetterM(ty, vals[aa[i].alternative], aa[i].coefficient, vals[aa[j].alternative], aa[j].coefficient, mg)}}
AnchorAdmissible(ty, aa, vals, strat) ==   \* aa: seq of [alternative, coefficient]; vals: alt -> value
  {vals[aa[i].alternative] : i \in {i \in DOMAIN aa :
      \A j \in DOMAIN aa :
         IF strat = "ideal"
         THEN ~AnchorBetter(ty, vals[aa[j].alternative], aa[j].coefficient, vals[aa[i].alternative], aa[i].coefficient)
         ELSE ~AnchorBetter(ty, vals[aa[i].alternative], aa[i].coefficient, vals[aa[j].alternative], aa[j].coefficient)}}

LinVal2(f, num, den, u) ==    \* (a * num/den + b) in unit u, times den: a*num + b*den  (a, b in unit u)
  PGet(f, "a", 0) * num + PGet(f, "b", 0) * den
IsLinear(fd) == Has(fd, "function") /\ fd.function = "linear"
FunParams(fd) == PGet(fd, "params", <<>>)
LinIsZero(fd) == IsLinear(fd) /\ PGet(FunParams(fd), "a", 0) = 0 /\ PGet(FunParams(fd), "b", 0) = 0

C19Event(o, k, b) ==
  LET e == BiasEvents(o)[k]
      p == BProps(b)
      u == o.case.unit
      before == BeforeOf(o, k)
      after == e.after
      rep == e.report.props
  IN IF ~e.fired THEN {}
     ELSE IF ~(Has(rep, "referencePoints") /\ Has(rep, "criteriaScaling") /\ Has(rep, "perReferencePointsDifferences") /\ Has(rep, "applierResult"))
          THEN {BFail("C19", "no-report", "")}
     ELSE IF ~ValuesCoherent(before) \/ Len(rep.referencePoints) # 1 THEN {BFail("C19", "shape", "")}
     ELSE
       LET aa == p.anchoringAlternatives
           strat == p.referencePoints.function
           rp == rep.referencePoints[1]
           C == StCritIds(before)
           ty == StType(before)
           allv(c) == [a \in AllIds(before) |-> ValOfAlt(before, a, c)]
           sgn(c, v) == IF ty[c] = "cost" THEN 0 - v ELSE v
           inline == p.applier.function = "inline"
           ap == PGet(p.applier, "params", <<>>)
           diffs == rep.perReferencePointsDifferences
           coefOf(a, c) == LET d == diffs[CHOOSE i \in DOMAIN diffs : diffs[i].alternative.id = a] IN d.referencePointsDifference[1].coefficients[c]
           diffsOK == /\ {diffs[i].alternative.id : i \in DOMAIN diffs} = AllIds(before)
                      /\ \A i \in DOMAIN diffs : Len(diffs[i].referencePointsDifference) = 1 /\ DOMAIN diffs[i].referencePointsDifference[1].coefficients = C
           (* mapped difference of alternative a on criterion c against the reported reference point *)
           mappedOK(a, c) ==
             LET rg == RangeOf(before, c)
                 den == rg.max - rg.min
                 num == sgn(c, ValOfAlt(before, a, c)) - sgn(c, rp.criteria[c])
                 got == coefOf(a, c)
                 (* which branch: gain when the scaled difference num/den is > 0.  The recorded values are rounded, so *)
                 (* a difference within the rounding error of 0 may have taken either branch (the mapping jumps there) *)
                 isBetter == (den > 0 /\ num > 0) \/ (den < 0 /\ num < 0)
                 branchOK(better) ==
                   LET fd == IF better THEN p.gain ELSE p.loss IN
                   IF ~IsLinear(fd) THEN
                       (* exponential mapping: sign only; a zero multiplier maps everything to zero *)
                       /\ (PGet(FunParams(fd), "multiplier", 0) = 0 => got = 0)
                       /\ ((PGet(FunParams(fd), "multiplier", 0) > 0 /\ PGet(FunParams(fd), "alpha", 0) > 0) => (IF better THEN got >= 0 ELSE got <= 0))
                       (* m (e^(alpha x) - 1) vanishes at x = 0 only: for |alpha|, |m| >= 1/2 and a scaled difference of at least *)
                       (* a quarter of the range its size is at least (1 - e^(-1/8)) / 2 > 0.05, far above the rounding slack    *)
                       /\ ((NAbs(PGet(FunParams(fd), "multiplier", 0)) * 2 >= u /\ NAbs(PGet(FunParams(fd), "alpha", 0)) * 2 >= u
                            /\ NAbs(den) > 8 * Slack /\ 4 * NAbs(num) >= NAbs(den) + 8 * Slack) => NAbs(got) * 32 > u)
                   ELSE IF den = 0 THEN Near(got, 0 - PGet(FunParams(fd), "b", 0), Slack)      \* scale 0: difference 0 -> -loss(0)
                   ELSE LET tol == Slack * NAbs(den) + 2 * NAbs(PGet(FunParams(fd), "a", 0)) + 2 * NAbs(got) + 2 * NAbs(PGet(FunParams(fd), "b", 0)) + u IN
                        IF better THEN Near(got * den, LinVal2(FunParams(fd), num, den, u), tol)
                        ELSE Near(got * den, 0 - LinVal2(FunParams(fd), 0 - num, den, u), tol)
             IN \/ branchOK(isBetter)
                \/ (~ExactBefore(o, k) /\ NAbs(num) <= Slack /\ den # 0 /\ branchOK(~isBetter))
                (* after real-valued biases a criterion's range may lie below the resolution of the recorded integers (all *)
                (* values project to the same number although they differ): its scaled differences are not recoverable    *)
                \/ (~ExactBefore(o, k) /\ NAbs(den) <= 2 * Slack)
           (* the property's domain: anchoring alternatives with positive coefficients *)
           coefDomain == \A i \in DOMAIN aa : Has(aa[i], "coefficient") /\ aa[i].coefficient > 0
           refOK == /\ rp.id = strat /\ DOMAIN rp.criteria = C
                    /\ ~coefDomain \/ \A c \in C : rp.criteria[c] \in AnchorAdmissibleM(ty[c], aa, allv(c), strat, IF ExactBefore(o, k) THEN 0 ELSE Slack)
           scalingOK == /\ DOMAIN rep.criteriaScaling = C
                        /\ \A c \in C : LET rg == RangeOf(before, c) sc == rep.criteriaScaling[c] IN
                              /\ sc.valuesRange.min = rg.min /\ sc.valuesRange.max = rg.max
                              /\ (IF rg.max = rg.min THEN (sc.scale = 0 \/ ~ExactBefore(o, k)) ELSE Near(sc.scale * (rg.max - rg.min), u * u, 2 * NAbs(sc.scale) + NAbs(rg.max - rg.min) + u))
           (* inline applier *)
           applied == rep.applierResult.appliedDifferences
           appliedOf(a) == applied[CHOOSE i \in DOMAIN applied : applied[i].id = a].criteria
           touched == IF PGet(ap, "applyOnNotConsidered", FALSE) THEN AllIds(before) ELSE AltIdsOf(before.considered)
           inlineOK ==
             /\ after.criteria = before.criteria /\ after.params = before.params
             /\ ValuesCoherent(after) /\ AllIds(after) = AllIds(before)
             /\ {applied[i].id : i \in DOMAIN applied} = touched
             /\ \A a \in AllIds(before) : \A c \in C :
                  LET v == ValOfAlt(before, a, c)
                      w == ValOfAlt(after, a, c)
                      rg == RangeOf(before, c)
                      moved2 == 2 * v + (2 * (rg.max - rg.min) * coefOf(a, c)) \div u
                  IN IF a \in touched
                     THEN /\ Near(2 * w, Bound2(ap, rg, u, moved2), 4 * Slack + (2 * NAbs(rg.max - rg.min)) \div u + 2)
                          /\ Near(appliedOf(a)[c], w - v, Slack)
                     ELSE w = v
           zeroIdentity ==
             (inline /\ LinIsZero(p.gain) /\ LinIsZero(p.loss) /\ ~BActive(ap, u)) =>
                \A a \in AllIds(before) : \A c \in C : ValOfAlt(after, a, c) = ValOfAlt(before, a, c)
           (* new-criterion applier *)
           added == rep.applierResult.addedCriteria
           (* what the report says about the added criterion is what the next stage received *)
           newReportOK ==
             Len(added) = 1 /\ AddedShapeOK(before, after, <<added[1].id>>) =>
                \A a \in AllIds(after) : a \in DOMAIN added[1].alternativesValues /\ added[1].alternativesValues[a] = ValOfAlt(after, a, added[1].id)
           newOK ==
             /\ Len(added) = 1
             /\ AddedShapeOK(before, after, <<added[1].id>>)
             /\ \A a \in AllIds(before) : \A c \in C : ValOfAlt(after, a, c) = ValOfAlt(before, a, c)
             (* value = mid-range + half-range x (importance-weighted mean of the mapped differences), the range  *)
             (* being the reference criterion's.  Importances come from the method's listener on the state the   *)
             (* bias started from; if the smallest is below 0.01 all are shifted up so that it becomes 0.01.     *)
             /\ \E rc \in C :
                  LET rg == RangeOf(before, rc)
                      d == rg.max - rg.min
                      m == Method(o)
                      raw == [c \in C |-> IF m \in {"weightedSum", "choquetIntegral"} THEN Imp(m, before, c) \div u ELSE Imp(m, before, c)]
                      mn == SetMin({raw[c] : c \in C})
                      floor01 == u \div 100
                      sh == IF mn < floor01 THEN floor01 - mn ELSE 0
                      S == SumOver(C, LAMBDA c : raw[c] + sh)
                  IN \A a \in AllIds(before) :
                     LET lo == SetMin({coefOf(a, c) : c \in C})
                         hi == SetMax({coefOf(a, c) : c \in C})
                         w == ValOfAlt(after, a, added[1].id)
                         t == 4 * Slack + (2 * NAbs(d)) \div u + 2
                         x1 == rg.min + rg.max + (d * lo) \div u
                         x2 == rg.min + rg.max + (d * hi) \div u
                         (* exact form where the numbers stay small: weighted mean q of the mapped differences *)
                         small == S > 0 /\ S < 200000 /\ \A c \in C : NAbs(coefOf(a, c)) < 8000 /\ raw[c] + sh >= 0
                         q == SumOver(C, LAMBDA c : (raw[c] + sh) * coefOf(a, c)) \div S
                         xq == rg.min + rg.max + (d * q) \div u
                         tq == t + (3 * NAbs(d)) \div u + (NAbs(d) * (NAbs(hi) + NAbs(lo) + 8)) \div (64 * u)
                     IN /\ 2 * w >= Bound2(ap, rg, u, NMin(x1, x2)) - t
                        /\ 2 * w <= Bound2(ap, rg, u, NMax(x1, x2)) + t
                        /\ ((small /\ ExactBefore(o, k)) => Near(2 * w, Bound2(ap, rg, u, xq), tq))
       IN (IF refOK THEN {} ELSE {BFail("C19", "reference-point", "")})
          \cup (IF scalingOK THEN {} ELSE {BFail("C19", "scaling", "")})
          \cup (IF ~diffsOK THEN {BFail("C19", "differences-shape", "")}
                ELSE IF ~refOK THEN {}
                ELSE (IF \A a \in AllIds(before) : \A c \in C : mappedOK(a, c) THEN {} ELSE {BFail("C19", "mapped-difference", "")})
                     \cup (IF inline
                           THEN (IF Has(rep.applierResult, "appliedDifferences") /\ inlineOK THEN {} ELSE {BFail("C19", "inline-applier", "")})
                                \cup (IF ValuesCoherent(after) /\ AllIds(after) = AllIds(before) /\ StCritIds(after) = C /\ zeroIdentity THEN {} ELSE {BFail("C19", "zero-functions-changed-data", "")})
                           ELSE (IF Has(rep.applierResult, "addedCriteria") /\ newOK THEN {} ELSE {BFail("C19", "new-criterion-applier", "")})
                                \cup (IF Has(rep.applierResult, "addedCriteria") /\ ~newReportOK
                                      THEN {BFail("C19", "report-differs", ""), BFail("C09", "report-differs", "")} ELSE {})))


(* ---------------- C08: relations between runs ---------------- *)
FiredVec(o) == [k \in DOMAIN BiasEvents(o) |-> BiasEvents(o)[k].fired]
ProbVec(o) == [k \in DOMAIN ReqBiases(o) |-> BProb(ReqBiases(o)[k], o.case.unit)]
SeedOf(o) == PGet(o.case.req, "biasApplyRandomSeed", 0)
(* one hidden draw d(seed, position) must explain both runs: whoever fired had the larger probability *)
C08PairOK(o1, o2) ==
  (o1.status = 200 /\ o2.status = 200 /\ SeedOf(o1) = SeedOf(o2)) =>
    \A pos \in 1..NMin(Len(FiredVec(o1)), Len(FiredVec(o2))) :
       /\ (FiredVec(o1)[pos] /\ ~FiredVec(o2)[pos]) => ProbVec(o1)[pos] > ProbVec(o2)[pos]
       /\ (FiredVec(o2)[pos] /\ ~FiredVec(o1)[pos]) => ProbVec(o2)[pos] > ProbVec(o1)[pos]
(* over N seeds a bias with probability pn/4 fires N*pn/4 times, within 7 standard deviations *)
C08FreqOK(count, n, pn) == (4 * count - n * pn) * (4 * count - n * pn) <= 49 * n * pn * (4 - pn)


(* ---------------- listener algebra: what removal / addition of criteria does to the method's parameters -------- *)
(* thresholds lists of the two threshold heuristics, restricted / extended consistently with the criteria *)
LevelsCover(st) ==
  st.levelParams.kind = "thresholds" =>
     \A i \in DOMAIN st.levelParams.thresholds : StCritIds(st) \subseteq DOMAIN st.levelParams.thresholds[i]
(* Choquet: a capacity for every non-empty subset of the current criteria *)
ChoquetCover(o, st) ==
  Method(o) = "choquetIntegral" =>
     (SUBSET StCritIds(st)) \ {{}} \subseteq {SeqSet(st.weightSets[i].set) : i \in DOMAIN st.weightSets}
CapOf(st, S) == st.weightSets[CHOOSE i \in DOMAIN st.weightSets : SeqSet(st.weightSets[i].set) = S].w

(* C15 / C07: after omission the kept criteria keep exactly their parameters *)
C15Params(o, k, b) ==
  LET e == BiasEvents(o)[k]
      before == BeforeOf(o, k)
      after == e.after
      m == Method(o)
      kept == StCritIds(before) \cap StCritIds(after)
  IN IF ~e.fired \/ ~Has(e.report.props, "omittedCriteria") THEN {}
     ELSE (IF \A c \in kept : WeightIn(m, after, c) = WeightIn(m, before, c) THEN {} ELSE {BFail("C15", "kept-parameters-changed", "")})
          \cup (IF LevelsCover(after) /\ ChoquetCover(o, after) THEN {} ELSE {BFail("C15", "parameters-not-restricted", "")})
          \cup (IF m = "choquetIntegral" /\ ChoquetCover(o, after) /\ ChoquetCover(o, before)
                   /\ \E S \in (SUBSET kept) \ {{}} : CapOf(after, S) # CapOf(before, S)
                THEN {BFail("C15", "kept-capacities-changed", "")} ELSE {})
          \cup (IF after.levelParams.kind = "thresholds" /\ before.levelParams.kind = "thresholds"
                   /\ LevelsCover(after) /\ LevelsCover(before)
                   /\ ~(Len(after.levelParams.thresholds) = Len(before.levelParams.thresholds)
                        /\ \A i \in DOMAIN after.levelParams.thresholds : \A c \in kept :
                              after.levelParams.thresholds[i][c] = before.levelParams.thresholds[i][c])
                THEN {BFail("C15", "kept-thresholds-changed", "")} ELSE {})

(* C18 / C07: after an added criterion the parameters cover it; Choquet: the new singleton's capacity is a fraction *)
(* in [0,1) and every superset S + new takes the capacity of S ("extends the parameters consistently")          *)
C18Params(o, k, newId) ==
  LET e == BiasEvents(o)[k]
      before == BeforeOf(o, k)
      after == e.after
      u == o.case.unit
  IN (IF LevelsCover(after) /\ ChoquetCover(o, after) THEN {} ELSE {BFail("C18", "parameters-not-extended", "")})
     (* the merged parameters are the old parameters plus the entry of the new criterion: every method option is kept *)
     \cup (IF OptionsSame(before, after) THEN {} ELSE {BFail("C18", "method-options-changed", "")})
     \cup (IF Method(o) = "choquetIntegral" /\ ChoquetCover(o, after) /\ ChoquetCover(o, before)
              /\ ~(/\ CapOf(after, {newId}) >= 0 /\ CapOf(after, {newId}) <= u
                   /\ \A S \in (SUBSET StCritIds(before)) \ {{}} :
                         CapOf(after, S) = CapOf(before, S) /\ CapOf(after, S \cup {newId}) = CapOf(before, S))
           THEN {BFail("C18", "capacities-not-extended-consistently", "")} ELSE {})

=============================================================================
