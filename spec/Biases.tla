------------------------------ MODULE Biases ------------------------------
(* Contracts of the bias stage, phrased over the hook events of one decision: *)
(* event e = [kind, index, fired, before, after, report, digests...] where     *)
(* before/after are pipeline states [criteria, considered, notConsidered,      *)
(* params, ...] and report is the entry the response will carry for that bias. *)
(* The decision-level state machine these steps belong to is Decision.tla.     *)
EXTENDS Methods

BFail(p, why, key) == [p |-> p, why |-> why, key |-> key]

(* the enabled biases of the request, in order; props default to the empty record *)
ReqBiases(o) == SelectSeq(o.case.req.biases, LAMBDA b : ~(Has(b, "disabled") /\ b.disabled))
BProb(b, u) == IF Has(b, "applyProbability") THEN b.applyProbability ELSE u
BProps(b) == IF Has(b, "props") THEN b.props ELSE <<>>

CritIdSeq(st) == [k \in DOMAIN st.criteria |-> st.criteria[k].id]
AllIds(st) == AltIdsOf(StAllAlts(st))
ValOfAlt(st, a, c) == AltById(StAllAlts(st), a).criteria[c]

(* ---------------- C07: coherence and frame conditions ---------------- *)
(* every known alternative has a value for exactly the current criteria *)
ValuesCoherent(st) ==
  \A k \in DOMAIN StAllAlts(st) : DOMAIN StAllAlts(st)[k].criteria = StCritIds(st)
SplitSame(s1, s2) ==
  /\ [k \in DOMAIN s1.considered |-> s1.considered[k].id] = [k \in DOMAIN s2.considered |-> s2.considered[k].id]
  /\ [k \in DOMAIN s1.notConsidered |-> s1.notConsidered[k].id] = [k \in DOMAIN s2.notConsidered |-> s2.notConsidered[k].id]

(* criteria a bias reports as removed / added *)
ReportedRemoved(name, rep) ==
  IF name = "criteriaOmission" /\ Has(rep, "omittedCriteria") THEN {rep.omittedCriteria[k].id : k \in DOMAIN rep.omittedCriteria} ELSE {}
ReportedAdded(name, rep) ==
  IF name = "criteriaConcealment" /\ Has(rep, "addedCriteria") THEN {rep.addedCriteria[k].id : k \in DOMAIN rep.addedCriteria}
  ELSE IF name = "criteriaMixing" /\ Has(rep, "newCriterion") THEN {rep.newCriterion.id}
  ELSE IF name = "anchoring" /\ Has(rep, "applierResult") /\ Has(rep.applierResult, "addedCriteria")
       THEN {rep.applierResult.addedCriteria[k].id : k \in DOMAIN rep.applierResult.addedCriteria}
  ELSE {}

(* which values a bias may deliberately rewrite: "all", a set of criteria, or nothing *)
MayRewrite(name, rep, p) ==
  IF name = "fatigue" THEN "all"
  ELSE IF name = "anchoring" /\ Has(p, "applier") /\ p.applier.function = "inline" THEN "all"
  ELSE "listed"
RewrittenSet(name, rep) ==
  IF name = "preferenceReversal" /\ Has(rep, "reversedPreferenceCriteria")
  THEN {rep.reversedPreferenceCriteria[k].id : k \in DOMAIN rep.reversedPreferenceCriteria} ELSE {}

(* the state a bias step started from: what the previous step handed on (the parsed state for the first) *)
BeforeOf(o, k) == IF k = 1 THEN ParsedState(o) ELSE BiasEvents(o)[k-1].after

C07Event(o, k, b) ==
  LET e == BiasEvents(o)[k]
      name == b.name
      rep == e.report.props
      p == BProps(b)
      before == BeforeOf(o, k)
      after == e.after
      kept == StCritIds(before) \cap StCritIds(after)
  IN (IF ValuesCoherent(after) THEN {} ELSE {BFail("C07", "values-incoherent", "")})
     \cup (IF e.probeEval /\ e.probeRank THEN {} ELSE {BFail("C07", "params-incoherent", "")})
     \cup (IF SplitSame(before, after) THEN {} ELSE {BFail("C07", "split-changed", "")})
     \cup (IF ~e.fired THEN (IF before = after THEN {} ELSE {BFail("C07", "skip-changed-state", "")})
           ELSE (IF StCritIds(before) \ StCritIds(after) = ReportedRemoved(name, rep)
                    /\ StCritIds(after) \ StCritIds(before) = ReportedAdded(name, rep)
                 THEN {} ELSE {BFail("C07", "criteria-delta-unreported", "")})
                \cup (IF MayRewrite(name, rep, p) = "all" \/ ~ValuesCoherent(before) \/ ~ValuesCoherent(after)
                         \/ \A a \in AllIds(before) : \A c \in kept \ RewrittenSet(name, rep) :
                               a \in AllIds(after) /\ ValOfAlt(before, a, c) = ValOfAlt(after, a, c)
                      THEN {} ELSE {BFail("C07", "earlier-values-lost", "")}))

(* ---------------- C08: switches and probabilities ---------------- *)
C08Line(o) ==
  LET rb == ReqBiases(o)
      u == o.case.unit
      ob == o.resp.biases
      evs == BiasEvents(o)
  IN (IF Len(ob) = Len(rb) /\ \A k \in DOMAIN rb :
            ob[k].name = rb[k].name /\ ob[k].applyProbability = BProb(rb[k], u)
      THEN {} ELSE {BFail("C08", "echo", "")})
     \cup (IF Len(evs) # Len(rb) THEN {BFail("C08", "events", "")}
           ELSE (IF \A k \in DOMAIN rb :
                       /\ (BProb(rb[k], u) >= u => evs[k].fired)
                       /\ (BProb(rb[k], u) <= 0 => ~evs[k].fired)
                       /\ (~evs[k].fired => (Has(ob[k].props, "isnull") /\ BeforeOf(o, k) = evs[k].after))
                 THEN {} ELSE {BFail("C08", "fire-rule", "")}))

(* ---------------- C09: reports faithful, nothing modified after the fact ---------------- *)
C09Line(o) ==
  (IF o.status # 200 \/ \A k \in DOMAIN o.events :
        /\ o.events[k].stDigAt = o.events[k].stDigEnd
        /\ o.events[k].origDigAt = o.events[k].origDigEnd
        /\ (o.events[k].kind = "bias" => o.events[k].repDigAt = o.events[k].repDigEnd)
   THEN {} ELSE {BFail("C09", "modified-after-handover", "")})
  \cup (IF o.reqDigBefore = o.reqDigAfter /\ o.reqHdrBefore = o.reqHdrAfter THEN {} ELSE {BFail("C09", "request-modified", "")})
  \cup (IF o.keptChanged = 0 THEN {} ELSE {BFail("C09", "earlier-result-modified", "")})
=============================================================================
