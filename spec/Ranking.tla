----------------------------- MODULE Ranking -----------------------------
(* A ranking is the `result` array of a response: a sequence of entries      *)
(*   [alternative |-> [id, criteria], evaluation |-> ..., betterThanOrSameAs |-> <<ids>>] *)
EXTENDS Num

RIds(res) == {res[i].alternative.id : i \in DOMAIN res}
RLinks(e) == SeqSet(e.betterThanOrSameAs)

(* C01: exactly one entry per member of S, links inside S, never self, never twice *)
WellFormed(res, S) ==
  /\ Len(res) = Cardinality(S)
  /\ RIds(res) = S
  /\ \A i \in DOMAIN res :
       /\ RLinks(res[i]) \subseteq S
       /\ res[i].alternative.id \notin RLinks(res[i])
       /\ NoDup(res[i].betterThanOrSameAs)

WhyNotWellFormed(res, S) ==
  IF Len(res) # Cardinality(S) \/ RIds(res) # S THEN "entries"
  ELSE IF \E i \in DOMAIN res : ~(RLinks(res[i]) \subseteq S) THEN "foreign-link"
  ELSE IF \E i \in DOMAIN res : res[i].alternative.id \in RLinks(res[i]) THEN "self-link"
  ELSE IF \E i \in DOMAIN res : ~NoDup(res[i].betterThanOrSameAs) THEN "duplicate-link"
  ELSE "ok"

(* ---- value rankings (weighted sum, OWA, Choquet): C04 ---- *)
(* v : S -> Int (the reported, already rounded utilities), ord : S -> Nat (rank of the id in  *)
(* ascending id order).                                                                      *)
LowerVals(v, S, x) == {v[b] : b \in {c \in S : v[c] < x}}
HasLower(v, S, x) == LowerVals(v, S, x) # {}
NextLower(v, S, x) == SetMax(LowerVals(v, S, x))

VLinks(v, S, a) ==
  {b \in S \ {a} : v[b] = v[a]} \cup
  (IF HasLower(v, S, v[a]) THEN {b \in S : v[b] = NextLower(v, S, v[a])} ELSE {})

Before(v, ord, a, b) == v[a] > v[b] \/ (v[a] = v[b] /\ ord[a] < ord[b])

RECURSIVE VOrder(_, _, _)
VOrder(v, ord, S) ==
  IF S = {} THEN <<>>
  ELSE LET a == CHOOSE x \in S : \A y \in S \ {x} : Before(v, ord, x, y)
       IN <<a>> \o VOrder(v, ord, S \ {a})

(* reachability over links: everything not valued higher (the theorem checked in MC_Utility) *)
RECURSIVE ReachFrom(_, _, _)
ReachFrom(links, frontier, seen) ==
  IF frontier = {} THEN seen
  ELSE LET nxt == UNION {links[a] : a \in frontier} \ seen
       IN ReachFrom(links, nxt, seen \cup nxt)
Reach(links, a) == ReachFrom(links, {a}, {}) \ {a}

(* sequential rankings of the two threshold heuristics: entry i links to entry i+1 only *)
SequentialLinksOK(res) ==
  \A i \in DOMAIN res :
     res[i].betterThanOrSameAs =
        IF i < Len(res) THEN <<res[i+1].alternative.id>> ELSE <<>>
=============================================================================
