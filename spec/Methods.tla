----------------------------- MODULE Methods -----------------------------
(* Contracts of the evaluation stage, phrased over one observation line `o`: *)
(* the state handed to the method (hook event "evaluate") and the response.  *)
(* Every operator returns a set of failure records [p, why, key]; the empty  *)
(* set means the contract holds.  `key` names a listed known finding when    *)
(* the failure is exactly that finding's deviation, else "".                 *)
EXTENDS Ranking, Utility, Majority, Levels, AspectElim, Satisfaction, Electre, Req

Fail(p, why, key) == [p |-> p, why |-> why, key |-> key]

U(o) == o.case.unit
Method(o) == o.case.req.preferenceFunction
Res(o) == o.resp.result
IsUtility(m) == m \in {"weightedSum", "owa", "choquetIntegral"}
IsHeuristic(m) == m \in {"majorityHeuristic", "aspectEliminationHeuristic", "satisfactionHeuristic"}

(* ---- C01 ---- *)
CurrentChoiceOf(o) ==
  LET mp == o.case.req.methodParameters
  IN IF Method(o) \in {"majorityHeuristic", "satisfactionHeuristic"} /\ Has(mp, "currentChoice")
        /\ mp.currentChoice # ""
     THEN {mp.currentChoice} ELSE {}
ExpectedSet(o) == (IF Has(o.case.req, "choseToMake") THEN SeqSet(o.case.req.choseToMake) ELSE {}) \cup CurrentChoiceOf(o)

C01(o) ==
  IF WellFormed(Res(o), ExpectedSet(o)) THEN {}
  ELSE {Fail("C01", WhyNotWellFormed(Res(o), ExpectedSet(o)), "")}

(* ---- C03: reported value = defining formula on the values finally evaluated ---- *)
EntryX(e) == e.alternative.criteria
PWeights(ws) == [c \in {ws[i].Criterion.Id : i \in DOMAIN ws} |->
                   ws[CHOOSE i \in DOMAIN ws : ws[i].Criterion.Id = c].Weight]
PTypes(ws) == [c \in {ws[i].Criterion.Id : i \in DOMAIN ws} |->
                   ws[CHOOSE i \in DOMAIN ws : ws[i].Criterion.Id = c].Criterion.Type]
MuOf(st) == [S \in {SeqSet(st.weightSets[i].set) : i \in DOMAIN st.weightSets} |->
               st.weightSets[CHOOSE i \in DOMAIN st.weightSets : SeqSet(st.weightSets[i].set) = S].w]

(* 1e-5 in unit U, rounded down: on the exact grids (U <= 2^16) this is 0, i.e. only exact ties *)
ChoquetEps(o) == IF Has(o.case, "eps") THEN o.case.eps ELSE 0

Expected2(o, st, e) ==
  LET m == Method(o) IN
  IF m = "weightedSum" THEN
     LET ws == st.params.weightedCriteria IN WS2(DOMAIN PWeights(ws), PWeights(ws), EntryX(e), PTypes(ws))
  ELSE IF m = "owa" THEN
     LET ws == st.params.Weights IN OWA2(DOMAIN PWeights(ws), PWeights(ws), EntryX(e))
  ELSE Choquet2(DOMAIN EntryX(e), MuOf(st), EntryX(e), ChoquetEps(o))

C03(o) ==
  LET st == EvalState(o)
      (* value x U = expected (unit squared), written without the product: a wrong value may be large *)
      bad == {i \in DOMAIN Res(o) : LET e2 == Expected2(o, st, Res(o)[i]) IN
                                      ~(e2 % U(o) = 0 /\ Res(o)[i].evaluation.value = e2 \div U(o))}
  IN IF bad = {} THEN {}
     ELSE IF Method(o) = "weightedSum"
             /\ \A i \in DOMAIN Res(o) :
                  LET ws == st.params.weightedCriteria IN
                  Res(o)[i].evaluation.value = WSUnweighted(DOMAIN PWeights(ws), EntryX(Res(o)[i]), PTypes(ws))
          THEN {Fail("C03", "value", "ws-unweighted")}
     ELSE {Fail("C03", "value", "")}

(* ---- C04: order and links are exactly those of the reported utilities ---- *)
ValOf(o) == [a \in RIds(Res(o)) |-> Res(o)[CHOOSE i \in DOMAIN Res(o) : Res(o)[i].alternative.id = a].evaluation.value]
C04(o) ==
  LET res == Res(o)
      S == RIds(res)
      v == ValOf(o)
      ord == IdOrd(o)
  IN IF ~NoDup([i \in DOMAIN res |-> res[i].alternative.id]) THEN {Fail("C04", "dup", "")}
     ELSE (IF [i \in DOMAIN res |-> res[i].alternative.id] = VOrder(v, ord, S) THEN {} ELSE {Fail("C04", "order", "")})
          \cup
          (IF \A i \in DOMAIN res : RLinks(res[i]) = VLinks(v, S, res[i].alternative.id)
              /\ NoDup(res[i].betterThanOrSameAs)
           THEN {} ELSE {Fail("C04", "links", "")})


(* ---- C11: majority heuristic = sequential pairwise tournament ---- *)
StX(st) == [a \in AltIdsOf(StAllAlts(st)) |-> AltById(StAllAlts(st), a).criteria]
MajCtx(st) == [C |-> StCritIds(st), w |-> st.params.Weights, ty |-> StType(st), x |-> StX(st)]
MajPolicy(st) == IF st.params.DrawResolution = "" THEN "allow" ELSE st.params.DrawResolution
ConsideredSeq(st) == [k \in DOMAIN st.considered |-> st.considered[k].id]
(* the fixed walk / search order is the order in which the request lists choseToMake (case.listed, set by the *)
(* orchestrator when the request names distinct alternatives); the considered set itself is C01's / C07's business *)
ListedSeq(o, st) ==
  IF Has(o.case, "listed") /\ SeqSet(o.case.listed) = SeqSet(ConsideredSeq(st)) THEN o.case.listed ELSE ConsideredSeq(st)
MajFixedOrder(o, st) ==
  LET cur == st.params.CurrentChoice IN
  IF cur = "" THEN ListedSeq(o, st)
  ELSE <<cur>> \o SelectSeq(ListedSeq(o, st), LAMBDA a : a # cur)

ObsEntries(res) == [k \in DOMAIN res |->
   [id |-> res[k].alternative.id, value |-> res[k].evaluation.value,
    cmp |-> res[k].evaluation.comparedWith, cmpValue |-> res[k].evaluation.comparedAlternativeValue]]
(* what the property determines of an entry: the winner's own reported value is left open *)
Determined(es) == [k \in DOMAIN es |->
   IF es[k].cmp = "" THEN [id |-> es[k].id, cmp |-> ""]
   ELSE [id |-> es[k].id, value |-> es[k].value, cmp |-> es[k].cmp, cmpValue |-> es[k].cmpValue]]
RefEntries(r) == [k \in DOMAIN r |-> [id |-> r[k].id, value |-> r[k].value, cmp |-> r[k].cmp, cmpValue |-> r[k].cmpValue]]

MajRef(st, order, pol, ch) == MRanking(MFinish(MRun(MInit(order), MajCtx(st), pol, ch)))

(* all search orders the heuristic may use: the current choice (if any) first *)
MajOrders(o, st) ==
  IF ~st.params.RandomAlternativesOrdering THEN {MajFixedOrder(o, st)}
  ELSE LET cur == st.params.CurrentChoice
           rest == SeqSet(ConsideredSeq(st)) \ {cur}
       IN IF cur = "" THEN PermsOf(rest) ELSE {<<cur>> \o p : p \in PermsOf(rest)}
MajChoices(st, n) == IF MajPolicy(st) = "random" THEN [2..n -> {"current", "newer"}] ELSE {<<>>}

C11(o) ==
  LET st == EvalState(o)
      res == Res(o)
      es == ObsEntries(res)
      ids == [k \in DOMAIN es |-> es[k].id]
      ctx == MajCtx(st)
      pol == MajPolicy(st)
      n == Len(es)
      entryOK(k) ==
        LET e == es[k] IN
        /\ e.cmp \in SeqSet(ids) /\ e.cmp # e.id
        /\ e.value = MScoreOf(ctx, e.id, e.cmp)
        /\ e.cmpValue = MScoreOf(ctx, e.cmp, e.id)
        /\ e.value <= e.cmpValue
        /\ IndexOf(ids, e.cmp) < k
        /\ (e.cmp \in RLinks(res[k]) => (pol = "allow" /\ e.value = e.cmpValue))
      fixed == ~st.params.RandomAlternativesOrdering
      ord == MajFixedOrder(o, st)
      (* with a known search order a drawn comparison must be decided by the policy *)
      drawOK(k) ==
        LET e == es[k] IN
        (fixed /\ e.cmp # "" /\ e.cmp \in SeqSet(ord) /\ e.id \in SeqSet(ord) /\ e.value = e.cmpValue) =>
           (IF pol \in {"allow", "current"} THEN IndexOf(ord, e.cmp) < IndexOf(ord, e.id)
            ELSE IF pol = "newer" THEN IndexOf(ord, e.id) < IndexOf(ord, e.cmp)
            ELSE TRUE)
      searchable == n <= (IF Has(o.case, "refmax") THEN o.case.refmax ELSE 5) \/ (fixed /\ pol # "random")
  IN IF ~NoDup(ids) \/ n = 0 THEN {Fail("C11", "entries", "")}
     ELSE (IF es[1].cmp = "" /\ \A k \in 2..n : es[k].cmp # "" THEN {} ELSE {Fail("C11", "winner", "")})
          \cup (IF \A k \in 2..n : es[k].cmp = "" \/ entryOK(k) THEN {} ELSE {Fail("C11", "entry", "")})
          \cup (IF \A k \in 1..n : drawOK(k) THEN {} ELSE {Fail("C11", "draw-policy", "")})
          \cup (IF ~searchable THEN {}
                ELSE IF \E order \in MajOrders(o, st) : \E ch \in MajChoices(st, n) :
                          Determined(RefEntries(MajRef(st, order, pol, ch))) = Determined(es)
                THEN {} ELSE {Fail("C11", "reference", "")})
          \cup (IF searchable /\ fixed /\ pol # "random" /\ NoDup(ids)
                   /\ \E k \in 1..n : RLinks(res[k]) # MajRef(st, ord, pol, <<>>)[k].links
                   /\ Determined(RefEntries(MajRef(st, ord, pol, <<>>))) = Determined(es)
                THEN {Fail("DRIFT", "majority-links", "")} ELSE {})


(* ---- aspiration levels of the two threshold heuristics, derived from the state handed to the method ---- *)
StCrits(st) == [k \in DOMAIN st.criteria |-> st.criteria[k]]
LvCD == 1024
HLevels(o, st, dir) ==
  LET lp == st.levelParams IN
  IF lp.kind = "thresholds" THEN lp.thresholds
  ELSE LGenerated(dir, st.params.Function, (lp.minValue * LD) \div U(o), (lp.maxValue * LD) \div U(o),
                  (lp.coefficient * LvCD) \div U(o), LvCD, StCrits(st), StAllAlts(st))
HLevelsExact(o, st, dir) ==
  LET lp == st.levelParams IN
  IF lp.kind = "thresholds" THEN TRUE
  ELSE LGeneratedExact(dir, st.params.Function, (lp.minValue * LD) \div U(o), (lp.maxValue * LD) \div U(o),
                       (lp.coefficient * LvCD) \div U(o), LvCD, StCrits(st), StAllAlts(st))

(* ---- C12: aspect elimination ---- *)
AEWeights(st) == st.params.Weights
AECritOrders(st) ==
  LET w == AEWeights(st) IN
  {p \in PermsOf(StCritIds(st)) : \A k \in 1..(Len(p) - 1) : w[p[k]] >= w[p[k+1]]}
AEOrders(o, st) == IF st.params.RandomAlternativesOrdering THEN PermsOf(SeqSet(ConsideredSeq(st))) ELSE {ListedSeq(o, st)}
AECtx(st, levels, corder) == [levels |-> levels, corder |-> corder, ty |-> StType(st), x |-> StX(st)]
AEObs(res) == [k \in DOMAIN res |->
   [id |-> res[k].alternative.id, level |-> res[k].evaluation.thresholdsIndex, thr |-> res[k].evaluation.notSatisfiedThreshold]]
AERefKey(e) == [id |-> e.id, level |-> e.level, crits |-> IF e.crit = "" THEN {} ELSE {e.crit},
                thr |-> IF e.crit = "" THEN 0 ELSE e.thr]
AEObsKey(e) == [id |-> e.id, level |-> e.level, crits |-> DOMAIN e.thr,
                thr |-> IF DOMAIN e.thr = {} THEN 0 ELSE e.thr[CHOOSE c \in DOMAIN e.thr : TRUE]]
(* the exact sequence: survivors in walk order, then the eliminated in reverse order of elimination (inside one *)
(* check the walk order of the alternatives decides)                                                          *)
AEMatches(ref, obs) ==
  /\ Len(ref) = Len(obs)
  /\ \A p \in DOMAIN ref : AERefKey(ref[p]) = AEObsKey(obs[p])

C12(o) ==
  LET st == EvalState(o)
      res == Res(o)
      obs == AEObs(res)
      levels == HLevels(o, st, "inc")
      w == AEWeights(st)
      ty == StType(st)
      x == StX(st)
      below(a, li, c) == IF ty[c] = "cost" THEN x[a][c] > levels[li][c] ELSE x[a][c] < levels[li][c]
      exact == HLevelsExact(o, st, "inc")
      elimOK(e) ==
         \/ DOMAIN e.thr = {}
         \/ /\ Cardinality(DOMAIN e.thr) = 1
            /\ e.level + 1 \in DOMAIN levels
            /\ LET c == CHOOSE c \in DOMAIN e.thr : TRUE IN
               /\ c \in StCritIds(st)
               /\ e.thr[c] = levels[e.level + 1][c]
               /\ below(e.id, e.level + 1, c)
               /\ \A li \in 1..e.level : \A d \in StCritIds(st) : ~below(e.id, li, d)
               /\ \A d \in StCritIds(st) : w[d] > w[c] => ~below(e.id, e.level + 1, d)
      (* survivors first, then the eliminated with non-increasing level index *)
      shapeOK ==
         /\ \A k \in 1..(Len(obs) - 1) : (DOMAIN obs[k].thr # {}) => (DOMAIN obs[k+1].thr # {} /\ obs[k].level >= obs[k+1].level)
         /\ \A k \in DOMAIN obs : (DOMAIN obs[k].thr = {}) =>
               /\ \A j \in DOMAIN obs : obs[j].level <= obs[k].level
               /\ obs[k].level <= Len(levels)
         /\ (Len(obs) >= 1 => DOMAIN obs[1].thr = {})
         (* more than one survivor only when the levels ran out *)
         /\ (Cardinality({k \in DOMAIN obs : DOMAIN obs[k].thr = {}}) > 1 => obs[1].level = Len(levels))
      searchable == Len(obs) <= (IF Has(o.case, "refmax") THEN o.case.refmax ELSE 4)
                    \/ (~st.params.RandomAlternativesOrdering /\ Cardinality(AECritOrders(st)) = 1)
  IN IF ~exact THEN {}
     ELSE (IF \A k \in DOMAIN obs : elimOK(obs[k]) THEN {} ELSE {Fail("C12", "entry", "")})
          \cup (IF shapeOK THEN {} ELSE {Fail("C12", "shape", "")})
          \cup (IF ~searchable THEN {}
                ELSE IF \E order \in AEOrders(o, st) : \E co \in AECritOrders(st) :
                          AEMatches(AERanking(AERun(AEInit(order), AECtx(st, levels, co))), obs)
                THEN {} ELSE {Fail("C12", "reference", "")})
          \cup (IF \A k \in DOMAIN obs : DOMAIN obs[k].thr = {} \/
                      \E li \in DOMAIN levels : \A c \in DOMAIN obs[k].thr : c \in DOMAIN levels[li] /\ obs[k].thr[c] = levels[li][c]
                THEN {} ELSE {Fail("C14", "reported-threshold-not-a-level-of-the-series", "")})
          \cup (IF SequentialLinksOK(res) THEN {} ELSE {Fail("DRIFT", "aspect-links", "")})

(* ---- C13: satisfaction heuristic ---- *)
SWorst(st) == [c \in StCritIds(st) |->
                 LET rg == LRange(StCrit(st, c), StAllAlts(st)) IN
                 IF StCrit(st, c).type = "cost" THEN rg.max ELSE rg.min]
SCtx(st, levels) == [levels |-> levels, C |-> StCritIds(st), ty |-> StType(st), x |-> StX(st), worst |-> SWorst(st)]
SObs(res) == [k \in DOMAIN res |->
   [id |-> res[k].alternative.id, level |-> res[k].evaluation.thresholdsIndex, thr |-> res[k].evaluation.satisfiedThresholds]]
SOrders(o, st) ==
  IF ~st.params.RandomAlternativesOrdering THEN {MajFixedOrder(o, st)}
  ELSE LET cur == st.params.CurrentChoice
           rest == SeqSet(ConsideredSeq(st)) \ {cur}
       IN IF cur = "" THEN PermsOf(rest) ELSE {<<cur>> \o p : p \in PermsOf(rest)}
SameMap(f, g) == DOMAIN f = DOMAIN g /\ \A c \in DOMAIN f : f[c] = g[c]
SMatches(ref, obs, nlev) ==
  /\ Len(ref) = Len(obs)
  /\ \A k \in DOMAIN ref :
        IF ref[k].level < nlev
        THEN ref[k].id = obs[k].id /\ ref[k].level = obs[k].level /\ SameMap(ref[k].thr, obs[k].thr)
        ELSE obs[k].level = nlev
  /\ {ref[k].id : k \in {j \in DOMAIN ref : ref[j].level = nlev}} = {obs[k].id : k \in {j \in DOMAIN obs : obs[j].level = nlev}}

C13(o) ==
  LET st == EvalState(o)
      res == Res(o)
      obs == SObs(res)
      levels == HLevels(o, st, "dec")
      nlev == Len(levels)
      ctx == SCtx(st, levels)
      exact == HLevelsExact(o, st, "dec")
      entryOK(e) ==
         IF e.level < nlev /\ e.level >= 0
         THEN /\ SameMap(e.thr, levels[e.level + 1])
              /\ SGood(ctx, e.id, e.level + 1)
              /\ \A li \in 1..e.level : ~SGood(ctx, e.id, li)
         ELSE /\ e.level = nlev
              /\ SameMap(e.thr, SWorst(st))
              /\ \A li \in 1..nlev : ~SGood(ctx, e.id, li)
      orderOK == \A k \in 1..(Len(obs) - 1) : obs[k].level <= obs[k+1].level
      searchable == Len(obs) <= (IF Has(o.case, "refmax") THEN o.case.refmax ELSE 5) \/ ~st.params.RandomAlternativesOrdering
  IN IF ~exact THEN {}
     ELSE (IF \A k \in DOMAIN obs : entryOK(obs[k]) THEN {} ELSE {Fail("C13", "entry", "")})
          \cup (IF orderOK THEN {} ELSE {Fail("C13", "order", "")})
          \cup (IF ~searchable THEN {}
                ELSE IF \E order \in SOrders(o, st) :
                          SMatches(SRanking(SRun(SInit(order), ctx), ctx), obs, nlev)
                THEN {} ELSE {Fail("C13", "reference", "")})
          \cup (IF \A k \in DOMAIN obs : obs[k].level >= nlev \/ \E li \in DOMAIN levels : SameMap(obs[k].thr, levels[li])
                THEN {} ELSE {Fail("C14", "reported-threshold-not-a-level-of-the-series", "")})
          \cup (IF \E k \in DOMAIN obs : obs[k].level > nlev THEN {Fail("C14", "more-levels-than-the-series-has", "")} ELSE {})
          \cup (IF SequentialLinksOK(res) THEN {} ELSE {Fail("DRIFT", "satisfaction-links", "")})


(* ---- C05 / C06: ELECTRE III end to end ---- *)
ECrs(st) ==
  [j \in StCritIds(st) |->
     LET e == st.params.Criteria[j] IN
     [ty |-> StType(st)[j], k |-> e.K, q |-> e.Q.B, p |-> e.P.B, v |-> e.V.B,
      hasq |-> e.Q.B # 0, hasp |-> e.P.B # 0, hasv |-> e.V.B # 0]]
(* the property's domain: constant thresholds 0 <= q < p < v (each may be absent, veto only with p), k > 0 *)
EInDomain(st) ==
  \A j \in StCritIds(st) :
     LET e == st.params.Criteria[j] IN
     /\ e.Q.A = 0 /\ e.P.A = 0 /\ e.V.A = 0 /\ e.K > 0
     /\ e.Q.B >= 0 /\ e.P.B >= 0 /\ e.V.B >= 0
     /\ (e.P.B # 0 => e.P.B > e.Q.B)
     /\ (e.V.B # 0 => (e.P.B # 0 /\ e.V.B > e.P.B))
EDistFun(o, st) ==
  IF Has(o.case, "sa") THEN [a |-> <<o.case.sa[1], o.case.sa[2]>>, b |-> <<o.case.sb[1], o.case.sb[2]>>]
  ELSE [a |-> RNorm(st.params.DistillationFun.A, U(o)), b |-> RNorm(st.params.DistillationFun.B, U(o))]
EObsIdx(res, f) == [a \in RIds(res) |-> res[CHOOSE k \in DOMAIN res : res[k].alternative.id = a].evaluation[f]]

ERef(o, st, tc) ==
  LET A == SeqSet(ConsideredSeq(st))
      M == CredMatrix(ECrs(st), StX(st), A, tc)
      s == EDistFun(o, st)
      P == Prep(M, A, s)
      asc == DistilP(P, A, s, MaxCred(M, A), 1, "asc", FALSE)
      dr == DistilP(P, A, s, MaxCred(M, A), 1, "desc", FALSE)
      mx == SetMax({dr[a] : a \in A})
  IN [asc |-> asc, desc |-> [a \in A |-> mx + 1 - dr[a]], fragile |-> BigDen(M, A) \/ FragileX(M, InexactMatrix(ECrs(st), StX(st), A, tc), A, s)]

(* stage 1: the recorded credibility matrix (hook H2, integers of 1e-6) against the exact rationals; entries whose *)
(* denominator would overflow TLC's integers are skipped                                                        *)
CredOK(o, st) ==
  LET ev == EventsOfKind(o, "evaluate")[1] IN
  IF ~Has(ev, "cred") THEN TRUE
  ELSE LET ids == ev.cred.alts
           A == SeqSet(ids)
           M == CredMatrix(ECrs(st), StX(st), A, TRUE)
       IN \A i \in DOMAIN ids : \A j \in DOMAIN ids :
             LET r == M[ids[i]][ids[j]] IN
             r[2] > 2000 \/ NAbs(ev.cred.cred6[i][j] * r[2] - r[1] * 1000000) <= 3 * r[2]

C05(o) ==
  LET st == EvalState(o)
      res == Res(o)
      A == SeqSet(ConsideredSeq(st))
      oasc == EObsIdx(res, "ascendingIndex")
      odesc == EObsIdx(res, "descendingIndex")
      linksOK == \A k \in DOMAIN res :
                   RLinks(res[k]) = ELinks(oasc, odesc, A, res[k].alternative.id) /\ NoDup(res[k].betterThanOrSameAs)
      classesOK(f) == {f[a] : a \in A} = 1..Cardinality({f[a] : a \in A})
  IN IF RIds(res) # A \/ Len(res) # Cardinality(A) THEN {Fail("C05", "entries", "")}
     ELSE (IF linksOK THEN {} ELSE {Fail("C05", "links", "")})
          \cup (IF classesOK(oasc) /\ classesOK(odesc) THEN {} ELSE {Fail("C05", "classes", "")})
          \cup (IF ~EInDomain(st) \/ CredOK(o, st) THEN {} ELSE {Fail("C05", "credibility", "")})
          \cup (IF ~EInDomain(st) THEN {}
                ELSE LET ref == ERef(o, st, TRUE) IN
                     IF ref.fragile \/ (ref.asc = oasc /\ ref.desc = odesc) THEN {}
                     ELSE LET dev == ERef(o, st, FALSE) IN
                          IF ~dev.fragile /\ dev.asc = oasc /\ dev.desc = odesc
                          THEN {Fail("C05", "indices", "electre-tie-not-concordant")}
                          ELSE {Fail("C05", "indices", "")})

C06(o) ==
  LET st == EvalState(o)
      res == Res(o)
      A == RIds(res)
      crs == ECrs(st)
      x == StX(st)
      oasc == EObsIdx(res, "ascendingIndex")
      odesc == EObsIdx(res, "descendingIndex")
      links(a) == RLinks(res[CHOOSE k \in DOMAIN res : res[k].alternative.id = a])
      same(a, b) == \A j \in DOMAIN crs : x[a][j] = x[b][j]
  IN IF ~EInDomain(st) \/ A # SeqSet(ConsideredSeq(st)) THEN {}
     ELSE (IF \A a \in A : \A b \in A \ {a} : Dominates(crs, x, a, b) =>
                 (oasc[a] <= oasc[b] /\ odesc[a] <= odesc[b] /\ b \in links(a))
           THEN {} ELSE {Fail("C06", "dominance", "")})
          \cup (IF \A a \in A : \A b \in A \ {a} : same(a, b) =>
                      (oasc[a] = oasc[b] /\ odesc[a] = odesc[b] /\ b \in links(a) /\ a \in links(b))
                THEN {} ELSE {Fail("C06", "identical", "")})

(* summary of one alternative that must not depend on the listing order *)
PermSummary(o) ==
  LET res == Res(o) IN
  [a \in RIds(res) |->
     LET e == res[CHOOSE i \in DOMAIN res : res[i].alternative.id = a]
     IN [ev |-> e.evaluation, links |-> RLinks(e)]]
=============================================================================
