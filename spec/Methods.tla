----------------------------- MODULE Methods -----------------------------
(* Contracts of the evaluation stage, phrased over one observation line `o`: *)
(* the state handed to the method (hook event "evaluate") and the response.  *)
(* Every operator returns a set of failure records [p, why, key]; the empty  *)
(* set means the contract holds.  `key` names a listed known finding when    *)
(* the failure is exactly that finding's deviation, else "".                 *)
EXTENDS Ranking, Utility, Req

Fail(p, why, key) == [p |-> p, why |-> why, key |-> key]

U(o) == o.case.unit
Method(o) == o.case.req.preferenceFunction
Res(o) == o.resp.result
IsUtility(m) == m \in {"weightedSum", "owa", "choquetIntegral"}
IsHeuristic(m) == m \in {"majorityHeuristic", "aspectEliminationHeuristic", "satisfactionHeuristic"}

(* ---- C01 ---- *)
CurrentChoiceOf(o) ==
  LET mp == o.case.req.methodParameters
  IN IF Method(o) \in {"majorityHeuristic", "satisfactionHeuristic"} /\ Has(mp, "currentChoice")
        /\ mp.currentChoice # ""
     THEN {mp.currentChoice} ELSE {}
ExpectedSet(o) == SeqSet(o.case.req.choseToMake) \cup CurrentChoiceOf(o)

C01(o) ==
  IF WellFormed(Res(o), ExpectedSet(o)) THEN {}
  ELSE {Fail("C01", WhyNotWellFormed(Res(o), ExpectedSet(o)), "")}

(* ---- C03: reported value = defining formula on the values finally evaluated ---- *)
EntryX(e) == e.alternative.criteria
PWeights(ws) == [c \in {ws[i].Criterion.Id : i \in DOMAIN ws} |->
                   ws[CHOOSE i \in DOMAIN ws : ws[i].Criterion.Id = c].Weight]
PTypes(ws) == [c \in {ws[i].Criterion.Id : i \in DOMAIN ws} |->
                   ws[CHOOSE i \in DOMAIN ws : ws[i].Criterion.Id = c].Criterion.Type]
MuOf(st) == [S \in {SeqSet(st.weightSets[i].set) : i \in DOMAIN st.weightSets} |->
               st.weightSets[CHOOSE i \in DOMAIN st.weightSets : SeqSet(st.weightSets[i].set) = S].w]

(* 1e-5 in unit U, rounded down: on the exact grids (U <= 2^16) this is 0, i.e. only exact ties *)
ChoquetEps(o) == IF Has(o.case, "eps") THEN o.case.eps ELSE 0

Expected2(o, st, e) ==
  LET m == Method(o) IN
  IF m = "weightedSum" THEN
     LET ws == st.params.weightedCriteria IN WS2(DOMAIN PWeights(ws), PWeights(ws), EntryX(e), PTypes(ws))
  ELSE IF m = "owa" THEN
     LET ws == st.params.Weights IN OWA2(DOMAIN PWeights(ws), PWeights(ws), EntryX(e))
  ELSE Choquet2(DOMAIN EntryX(e), MuOf(st), EntryX(e), ChoquetEps(o))

C03(o) ==
  LET st == EvalState(o)
      bad == {i \in DOMAIN Res(o) : Res(o)[i].evaluation.value * U(o) # Expected2(o, st, Res(o)[i])}
  IN IF bad = {} THEN {}
     ELSE IF Method(o) = "weightedSum"
             /\ \A i \in DOMAIN Res(o) :
                  LET ws == st.params.weightedCriteria IN
                  Res(o)[i].evaluation.value = WSUnweighted(DOMAIN PWeights(ws), EntryX(Res(o)[i]), PTypes(ws))
          THEN {Fail("C03", "value", "ws-unweighted")}
     ELSE {Fail("C03", "value", "")}

(* ---- C04: order and links are exactly those of the reported utilities ---- *)
ValOf(o) == [a \in RIds(Res(o)) |-> Res(o)[CHOOSE i \in DOMAIN Res(o) : Res(o)[i].alternative.id = a].evaluation.value]
C04(o) ==
  LET res == Res(o)
      S == RIds(res)
      v == ValOf(o)
      ord == IdOrd(o)
  IN IF ~NoDup([i \in DOMAIN res |-> res[i].alternative.id]) THEN {Fail("C04", "dup", "")}
     ELSE (IF [i \in DOMAIN res |-> res[i].alternative.id] = VOrder(v, ord, S) THEN {} ELSE {Fail("C04", "order", "")})
          \cup
          (IF \A i \in DOMAIN res : RLinks(res[i]) = VLinks(v, S, res[i].alternative.id)
              /\ NoDup(res[i].betterThanOrSameAs)
           THEN {} ELSE {Fail("C04", "links", "")})

(* summary of one alternative that must not depend on the listing order *)
PermSummary(o) ==
  LET res == Res(o) IN
  [a \in RIds(res) |->
     LET e == res[CHOOSE i \in DOMAIN res : res[i].alternative.id = a]
     IN [ev |-> e.evaluation, links |-> RLinks(e)]]
=============================================================================
