------------------------------- MODULE Num -------------------------------
(* Integer helpers shared by all design modules.  All quantities of the     *)
(* decision model are integers in a per-family unit U (value x is x*U).      *)
EXTENDS Integers, Sequences, FiniteSets, FiniteSetsExt, SequencesExt, Functions

NAbs(x) == IF x < 0 THEN -x ELSE x
NMin(a, b) == IF a <= b THEN a ELSE b
NMax(a, b) == IF a >= b THEN a ELSE b
NSign(x) == IF x > 0 THEN 1 ELSE IF x < 0 THEN -1 ELSE 0

SetMax(S) == CHOOSE x \in S : \A y \in S : y <= x
SetMin(S) == CHOOSE x \in S : \A y \in S : x <= y

(* sum of f[k] over k \in S *)
SumOver(S, f(_)) == MapThenSumSet(f, S)

SeqSet(s) == {s[i] : i \in DOMAIN s}
NoDup(s) == \A i, j \in DOMAIN s : i # j => s[i] # s[j]
IndexOf(s, x) == CHOOSE i \in DOMAIN s : s[i] = x
Has(r, k) == k \in DOMAIN r

(* floor division that is exact or flags the grid as unsuitable *)
ExactDiv(a, b) == a \div b
IsExactDiv(a, b) == a % b = 0

(* floor of a/b for b > 0, a any sign (TLC's \div already floors) *)
FloorDiv(a, b) == a \div b

(* ascending sort of a bag given as function S -> Int: the sequence of values *)
RECURSIVE SortedVals(_, _)
SortedVals(S, f) ==
  IF S = {} THEN <<>>
  ELSE LET m == CHOOSE x \in S : \A y \in S : f[x] <= f[y]
       IN <<f[m]>> \o SortedVals(S \ {m}, f)

(* all permutations of a finite set as sequences *)
RECURSIVE PermsOf(_)
PermsOf(S) ==
  IF S = {} THEN {<<>>}
  ELSE UNION {{<<x>> \o p : p \in PermsOf(S \ {x})} : x \in S}

GCD2(a, b) == LET RECURSIVE G(_, _)
                  G(x, y) == IF y = 0 THEN x ELSE G(y, x % y)
              IN G(NAbs(a), NAbs(b))
=============================================================================
