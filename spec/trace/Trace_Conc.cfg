SPECIFICATION Spec
POSTCONDITION AllConsumed
CHECK_DEADLOCK FALSE
