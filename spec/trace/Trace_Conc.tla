----------------------------- MODULE Trace_Conc -----------------------------
(* Validation of concurrent executions (C10).  A gated line records one run  *)
(* of k requests whose gate points were released in the order of a TLC-made   *)
(* schedule: the recorded order must be that schedule (restricted to gates    *)
(* that exist) - i.e. a behaviour of Service.tla - and every response must    *)
(* equal the response of the same request executed alone (Service!Isolation). *)
(* A free-run line records many ungated concurrent requests through the real  *)
(* handler (race detector on): no response may differ from the solo one.       *)
EXTENDS Num, Json, TLC

Trace == ndJsonDeserialize("obs.ndjson")
VARIABLES l, done
vars == <<l, done>>
Fail(p, why, key) == [p |-> p, why |-> why, key |-> key]

(* the recorded grant order, projected to clients, is a subsequence-faithful prefix image of the schedule:  *)
(* per client the number of grants does not exceed what the schedule allots, and the relative order of the *)
(* recorded grants equals the schedule's order restricted to grants that happened                           *)
RECURSIVE Filter(_, _, _)
Filter(sched, quota, k) ==   \* keep schedule entries while the client still has recorded grants left
  IF k > Len(sched) THEN <<>>
  ELSE LET c == sched[k] IN
       IF quota[c] > 0 THEN <<c>> \o Filter(sched, [quota EXCEPT ![c] = @ - 1], k + 1)
       ELSE Filter(sched, quota, k + 1)

GatedVerdicts(o) ==
  LET n == Len(o.solo)
      rec == [k \in DOMAIN o.order |-> o.order[k][1]]
      quota == [c \in 1..n |-> Cardinality({k \in DOMAIN rec : rec[k] = c})]
      planned == Filter(o.case.schedule, quota, 1)
  IN (IF \A i \in 1..n : o.conc[i] = o.solo[i] THEN {} ELSE {Fail("C10", "response-differs-from-solo", "")})
     \cup (IF Len(planned) <= Len(rec) /\ SubSeq(rec, 1, Len(planned)) = planned THEN {} ELSE {Fail("INFRA", "schedule-not-followed", "")})

FreeVerdicts(o) ==
  IF Has(o, "crashed") /\ o.crashed THEN {Fail("C10", "process-killed-by-concurrent-map-access", "")}
  ELSE
  (IF o.mismatch = 0 THEN {} ELSE {Fail("C10", "concurrent-response-differs", "")})
  \cup (IF o.fnStatus = 200 THEN {} ELSE {Fail("C10", "service-broken-after-load", "")})
  \cup (IF Has(o, "races") /\ o.races > 0 THEN {Fail("C10", "data-race", "")} ELSE {})

Verdicts(o) == IF Has(o.case, "free") /\ o.case.free THEN FreeVerdicts(o) ELSE GatedVerdicts(o)

Init == l = 0 /\ done = FALSE
Spread == l = 0 /\ l' \in 1..Len(Trace) /\ UNCHANGED done
Eval == /\ l > 0 /\ ~done
        /\ LET V == Verdicts(Trace[l]) IN
             IF V = {} THEN TRUE ELSE PrintT(ToJson([VERDICT |-> l, case |-> Trace[l].case.id, v |-> V]))
        /\ done' = TRUE /\ UNCHANGED l
Next == Spread \/ Eval
Spec == Init /\ [][Next]_vars
AllConsumed == TLCGet("distinct") = 2 * Len(Trace) + 1
=============================================================================
