--------------------------- MODULE Trace_Decide ---------------------------
(* Trace validation of recorded decisions.  One line of obs.ndjson = one    *)
(* decision of the real code (request, hook events, response).  Each TLC     *)
(* step consumes one line and evaluates every contract applicable to it;     *)
(* failures are printed as verdict lines and never stop the run, acceptance  *)
(* (POSTCONDITION) requires that every line was consumed.                    *)
EXTENDS Methods, Json, TLC

Trace == ndJsonDeserialize("obs.ndjson")

VARIABLES l, memo
vars == <<l, memo>>

NoMemo == [gid |-> "", sum |-> <<>>]

FailProp(o) == IF Has(o.case, "failprop") THEN o.case.failprop ELSE "C20"

StatusVerdicts(o) ==
  LET exp == IF Has(o.case, "expect") THEN o.case.expect ELSE "ok" IN
  IF exp = "ok" /\ o.status # 200 THEN {Fail(FailProp(o), "rejected", "")}
  ELSE IF exp = "reject" /\ o.status = 200 THEN {Fail(FailProp(o), "accepted", "")}
  ELSE {}

GridVerdicts(o) ==
  IF o.overflow > 0 THEN {Fail("INFRA", "overflow", "")}
  ELSE IF Has(o.case, "exactprop") /\ o.status = 200 /\ o.inexact > 0
       THEN {Fail(o.case.exactprop, "off-grid", "")}
  ELSE {}

MethodVerdicts(o) ==
  IF o.status # 200 THEN {}
  ELSE C01(o) \cup
       (IF IsUtility(Method(o)) /\ HasEval(o) THEN C03(o) \cup C04(o) ELSE {}) \cup
       (IF Method(o) = "majorityHeuristic" /\ HasEval(o) THEN C11(o) ELSE {}) \cup
       (IF Method(o) = "aspectEliminationHeuristic" /\ HasEval(o) THEN C12(o) ELSE {}) \cup
       (IF Method(o) = "satisfactionHeuristic" /\ HasEval(o) THEN C13(o) ELSE {})

(* relation between the members of a group of runs (adjacent lines sharing case.group.id) *)
GroupSummary(o) ==
  IF o.status # 200 THEN [status |-> o.status]
  ELSE IF o.case.group.rel = "perm" THEN [status |-> 200, s |-> PermSummary(o)]
  ELSE [status |-> 200, s |-> o.resp]

GroupVerdicts(o) ==
  IF ~Has(o.case, "group") THEN {}
  ELSE IF memo.gid # o.case.group.id THEN {}
  ELSE IF memo.sum = GroupSummary(o) THEN {}
  ELSE {Fail(o.case.group.p, o.case.group.rel, "")}

Verdicts(o) == StatusVerdicts(o) \cup GridVerdicts(o) \cup MethodVerdicts(o) \cup GroupVerdicts(o)

Init == l = 1 /\ memo = NoMemo

Next ==
  /\ l <= Len(Trace)
  /\ LET o == Trace[l]
         V == Verdicts(o)
     IN /\ IF V = {} THEN TRUE
           ELSE PrintT(ToJson([VERDICT |-> l, case |-> o.case.id, v |-> V]))
        /\ memo' = IF Has(o.case, "group") /\ memo.gid # o.case.group.id
                   THEN [gid |-> o.case.group.id, sum |-> GroupSummary(o)]
                   ELSE IF Has(o.case, "group") THEN memo ELSE NoMemo
  /\ l' = l + 1

Spec == Init /\ [][Next]_vars

AllConsumed == TLCGet("stats").diameter = Len(Trace) + 1
=============================================================================
