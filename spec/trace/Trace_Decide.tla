--------------------------- MODULE Trace_Decide ---------------------------
(* Trace validation of recorded decisions.  One line of obs.ndjson = one    *)
(* decision of the real code (request, hook events, response).  Every        *)
(* contract applicable to a line is evaluated; failures are printed as       *)
(* verdict lines and never stop the run, acceptance (POSTCONDITION) requires *)
(* that every line was evaluated.                                            *)
(*                                                                           *)
(* Lines are independent decisions, so they are validated as independent TLC *)
(* states: from the root state `Spread` fans out to one state per line, and  *)
(* `Eval` - enabled once in each of them - evaluates the contracts of that    *)
(* line.  TLC's workers thus validate lines in parallel inside one JVM.       *)
(* Relations between the members of a group of runs (adjacent lines sharing   *)
(* case.group.id) are evaluated on every member against the group's first line *)
EXTENDS Biases, Json, TLC

Trace == ndJsonDeserialize("obs.ndjson")

VARIABLES l, done
vars == <<l, done>>

FailProp(o) == IF Has(o.case, "failprop") THEN o.case.failprop ELSE "C20"

StatusVerdicts(o) ==
  LET exp == IF Has(o.case, "expect") THEN o.case.expect ELSE "ok" IN
  IF Has(o, "answered") /\ ~o.answered THEN {Fail(FailProp(o), "no-answer", ""), Fail("C20", "no-answer", "")}
  ELSE IF exp = "ok" /\ o.status # 200
       THEN {Fail(FailProp(o), "rejected", "")} \cup (IF Has(o.case, "failprop2") THEN {Fail(o.case.failprop2, "rejected", "")} ELSE {})
  ELSE IF exp = "reject" /\ o.status = 200 THEN {Fail(FailProp(o), "accepted", "")}
  ELSE {}

(* observations holding numbers beyond TLC's integers (o.overflow > 0, saturated by the harness) keep *)
(* their structural contracts only                                                                   *)
GridVerdicts(o) ==
  IF o.overflow > 0 THEN {}
  ELSE IF Has(o.case, "exactprop") /\ o.status = 200 /\ o.inexact > 0
       THEN {Fail(o.case.exactprop, "off-grid", "")}
  ELSE {}

(* reference-model contracts of the method need data on the exact grid; cases whose biases produce *)
(* seeded real numbers (fatigue, concealment, ...) switch them off with case.methodref = FALSE    *)
MethodRef(o) == ~(Has(o.case, "methodref") /\ ~o.case.methodref)

(* every entry of a utility ranking reports its utility (the contracts below read it) *)
UtilityValuesThere(o) ==
  \A i \in DOMAIN o.resp.result : Has(o.resp.result[i], "evaluation") /\ Has(o.resp.result[i].evaluation, "value")

MethodVerdicts(o) ==
  IF o.status # 200 THEN {}
  ELSE IF IsUtility(Method(o)) /\ HasEval(o) /\ ~UtilityValuesThere(o)
       THEN {Fail("C03", "entry-without-value", ""), Fail("C04", "entry-without-value", "")}
  ELSE IF ~MethodRef(o) \/ o.overflow > 0 THEN C01(o)
  ELSE IF C01(o) # {} THEN      \* a malformed ranking is reported as such; of the other contracts only the order / link
                                \* contract of the utility methods (it guards itself against duplicate entries) is evaluated
       C01(o) \cup (IF IsUtility(Method(o)) /\ HasEval(o) /\ ~(Has(o.case, "noC04") /\ o.case.noC04) THEN C04(o) ELSE {})
  ELSE C01(o) \cup
       (IF IsUtility(Method(o)) /\ HasEval(o) THEN (IF Has(o.case, "noC03") /\ o.case.noC03 THEN {} ELSE C03(o))
                                                \cup (IF Has(o.case, "noC04") /\ o.case.noC04 THEN {} ELSE C04(o)) ELSE {}) \cup
       (IF Method(o) = "majorityHeuristic" /\ HasEval(o) THEN C11(o) ELSE {}) \cup
       (IF Method(o) = "aspectEliminationHeuristic" /\ HasEval(o) THEN C12(o) ELSE {}) \cup
       (IF Method(o) = "satisfactionHeuristic" /\ HasEval(o) THEN C13(o) ELSE {}) \cup
       (IF Method(o) = "electreIII" /\ HasEval(o) THEN C05(o) \cup C06(o) ELSE {})

BiasContract(o, k, b) ==
  IF b.name = "criteriaOmission" THEN C15Event(o, k, b) \cup C15Params(o, k, b)
  ELSE IF b.name = "preferenceReversal" THEN C16Event(o, k, b)
  ELSE IF b.name = "fatigue" THEN C17Event(o, k, b)
  ELSE IF b.name = "criteriaConcealment" THEN
       C18Conceal(o, k, b) \cup (LET rep == BiasEvents(o)[k].report.props IN
                                 IF BiasEvents(o)[k].fired /\ Has(rep, "addedCriteria") /\ Len(rep.addedCriteria) = 1
                                 THEN C18Params(o, k, rep.addedCriteria[1].id) ELSE {})
  ELSE IF b.name = "criteriaMixing" THEN
       C18Mix(o, k, b) \cup (LET rep == BiasEvents(o)[k].report.props IN
                             IF BiasEvents(o)[k].fired /\ Has(rep, "newCriterion") THEN C18Params(o, k, rep.newCriterion.id) ELSE {})
  ELSE IF b.name = "anchoring" THEN C19Event(o, k, b)
  ELSE {}

(* contracts of the bias stage, evaluated on every recorded bias step (cases ask for them with case.bias) *)
BiasVerdicts(o) ==
  IF ~(Has(o.case, "bias") /\ o.case.bias) THEN {}
  ELSE LET rb == ReqBiases(o)
           evs == BiasEvents(o)
       IN (IF o.status = 200 THEN C08Line(o) ELSE {})
          \cup UNION {C07Event(o, k, rb[k]) : k \in {j \in DOMAIN evs : j <= Len(rb)}}
          \cup (IF o.overflow > 0 THEN {}
                ELSE UNION {BiasContract(o, k, rb[k]) : k \in {j \in DOMAIN evs : j <= Len(rb)}}
                     \cup C16Double(o) \cup C17Directions(o))
          \cup (IF Has(o, "reqDigBefore") THEN C09Line(o) ELSE {})

(* relation between the members of a group of runs (adjacent lines sharing case.group.id) *)
GroupSummary(o) ==
  IF o.status # 200 THEN [status |-> o.status]
  ELSE IF o.case.group.rel = "perm" THEN [status |-> 200, s |-> PermSummary(o)]
  ELSE [status |-> 200, s |-> o.resp]

RECURSIVE GroupFirst(_)
GroupFirst(k) ==
  IF k > 1 /\ Has(Trace[k-1].case, "group") /\ Trace[k-1].case.group.id = Trace[k].case.group.id
  THEN GroupFirst(k - 1) ELSE k

IsGroupLast(k) == k = Len(Trace) \/ ~Has(Trace[k+1].case, "group") \/ Trace[k+1].case.group.id # Trace[k].case.group.id

GroupVerdicts(k) ==
  LET o == Trace[k] IN
  IF ~Has(o.case, "group") THEN {}
  ELSE LET f == GroupFirst(k)
           rel == o.case.group.rel
       IN IF rel = "c08" THEN
             (IF \A j \in f..(k - 1) : C08PairOK(Trace[j], o) THEN {} ELSE {Fail("C08", "draw-not-independent-or-monotone", "")})
             \cup (IF Has(o.case.group, "sameAsFirst") /\ o.case.group.sameAsFirst /\ ~(o.status = Trace[f].status /\ o.resp = Trace[f].resp)
                   THEN {Fail("C08", "disabled-not-equivalent-to-absent", "")} ELSE {})
          ELSE IF rel = "c08freq" THEN
             (IF ~IsGroupLast(k) THEN {}
              ELSE LET n == k - f + 1
                       cnt(pos) == Cardinality({j \in f..k : Trace[j].status = 200 /\ Len(FiredVec(Trace[j])) >= pos /\ FiredVec(Trace[j])[pos]})
                   IN IF \A pos \in 1..3 : C08FreqOK(cnt(pos), n, pos) THEN {} ELSE {Fail("C08", "frequency", "")})
          ELSE IF rel = "c15freq" THEN
             (* over many seeds the probability orderings put the less (more) important criterion first more often: *)
             (* the group's requests differ in their seed only; criteria c1 < c2 < c3 in importance (1 : 4 : 16)      *)
             (IF ~IsGroupLast(k) THEN {}
              ELSE LET first(j) == LET evs == BiasEvents(Trace[j]) IN
                                   IF Trace[j].status = 200 /\ Len(evs) >= 1 /\ Has(evs[1].report.props, "omittedCriteria")
                                      /\ Len(evs[1].report.props.omittedCriteria) = 1
                                   THEN evs[1].report.props.omittedCriteria[1].id ELSE "?"
                       cnt(c) == Cardinality({j \in f..k : first(j) = c})
                       weakFirst == o.case.group.ordering = "weakestByProbability"
                   IN IF cnt("?") = 0 /\ (IF weakFirst THEN cnt("c1") > cnt("c2") /\ cnt("c2") > cnt("c3")
                                                        ELSE cnt("c3") > cnt("c2") /\ cnt("c2") > cnt("c1"))
                      THEN {} ELSE {Fail("C15", "probability-ordering-frequencies", "")})
          ELSE IF rel = "c15freqM" THEN
             (* the same clause for any number of criteria: group.crits lists them by increasing importance (1 : 4 : ...) *)
             (IF ~IsGroupLast(k) THEN {}
              ELSE LET first(j) == LET evs == BiasEvents(Trace[j]) IN
                                   IF Trace[j].status = 200 /\ Len(evs) >= 1 /\ Has(evs[1].report.props, "omittedCriteria")
                                      /\ Len(evs[1].report.props.omittedCriteria) = 1
                                   THEN evs[1].report.props.omittedCriteria[1].id ELSE "?"
                       cs == o.case.group.crits
                       cnt(c) == Cardinality({j \in f..k : first(j) = c})
                       weakFirst == o.case.group.ordering = "weakestByProbability"
                   IN IF cnt("?") = 0 /\ (\A i \in 1..(Len(cs) - 1) :
                                             IF weakFirst THEN cnt(cs[i]) > cnt(cs[i + 1]) ELSE cnt(cs[i + 1]) > cnt(cs[i]))
                      THEN {} ELSE {Fail("C15", "probability-ordering-frequencies", "")})
          ELSE IF rel = "c15freq2M" THEN
             (* two of four criteria omitted: given the likeliest first pick (group.first) the second pick is group.second   *)
             (* (next in the ordering's direction, four times the weight of group.third) clearly more often than group.third *)
             (IF ~IsGroupLast(k) THEN {}
              ELSE LET om(j) == LET evs == BiasEvents(Trace[j]) IN
                                IF Trace[j].status = 200 /\ Len(evs) >= 1 /\ Has(evs[1].report.props, "omittedCriteria")
                                   /\ Len(evs[1].report.props.omittedCriteria) = 2
                                THEN <<evs[1].report.props.omittedCriteria[1].id, evs[1].report.props.omittedCriteria[2].id>> ELSE <<"?", "?">>
                       cnt(a, b) == Cardinality({j \in f..k : om(j) = <<a, b>>})
                       g == o.case.group
                       bad == Cardinality({j \in f..k : om(j)[1] = "?"})
                   IN IF bad = 0 /\ cnt(g.first, g.second) > 2 * cnt(g.first, g.third)
                      THEN {} ELSE {Fail("C15", "probability-ordering-second-pick", "")})
          ELSE IF rel = "c18freq" THEN
             (IF ~IsGroupLast(k) THEN {}
              ELSE LET ref(j) == LET rs == IF Trace[j].status = 200 /\ Len(BiasEvents(Trace[j])) >= 1
                                           THEN ConcealRefs(Trace[j], 1, ReqBiases(Trace[j])[1]) ELSE {} IN
                                 IF Cardinality(rs) = 1 THEN CHOOSE c \in rs : TRUE ELSE "?"
                       cnt(c) == Cardinality({j \in f..k : ref(j) = c})
                   IN IF cnt("?") = 0 /\ C18FreqOK(o.case.group.strategy, cnt("c1"), cnt("c2"), cnt("c3"), k - f + 1)
                      THEN {} ELSE {Fail("C18", "reference-strategy-frequencies", "")})
          ELSE IF rel = "c15freq2" THEN
             (* two criteria omitted: given the likeliest first pick (the weakest criterion c1 for weakestByProbability, the *)
             (* strongest c3 for strongestByProbability) the second pick is drawn among the other two with the same rule -  *)
             (* c2 (importance 4) before c3 (16) resp. c2 before c1 (1) in about four cases out of five                      *)
             (IF ~IsGroupLast(k) THEN {}
              ELSE LET om(j) == LET evs == BiasEvents(Trace[j]) IN
                                IF Trace[j].status = 200 /\ Len(evs) >= 1 /\ Has(evs[1].report.props, "omittedCriteria")
                                   /\ Len(evs[1].report.props.omittedCriteria) = 2
                                THEN <<evs[1].report.props.omittedCriteria[1].id, evs[1].report.props.omittedCriteria[2].id>> ELSE <<"?", "?">>
                       cnt(a, b) == Cardinality({j \in f..k : om(j) = <<a, b>>})
                       weakFirst == o.case.group.ordering = "weakestByProbability"
                       bad == Cardinality({j \in f..k : om(j)[1] = "?"})
                   IN IF bad = 0 /\ (IF weakFirst THEN cnt("c1", "c2") > 2 * cnt("c1", "c3") ELSE cnt("c3", "c2") > 2 * cnt("c3", "c1"))
                      THEN {} ELSE {Fail("C15", "probability-ordering-second-pick", "")})
          ELSE IF rel = "shuffle" THEN
             (* the group's requests differ in the heuristic's seed only and ask for a seeded-random order on an instance  *)
             (* whose ranking shows the walk order: over 24 seeds the order cannot always be the same                    *)
             (IF ~IsGroupLast(k) THEN {}
              ELSE LET seqOf(j) == IF Trace[j].status = 200
                                   THEN [i \in DOMAIN Trace[j].resp.result |-> Trace[j].resp.result[i].alternative.id] ELSE <<>>
                   IN IF Cardinality({seqOf(j) : j \in f..k}) >= 2 THEN {}
                      ELSE {Fail(o.case.group.p, "seeded-random-order-never-differs", "")})
          ELSE IF rel = "samereq" THEN
             (IF \A j \in f..(k - 1) : Trace[j].case.reqkey = o.case.reqkey => (Trace[j].status = o.status /\ Trace[j].resp = o.resp)
              THEN {} ELSE {Fail(o.case.group.p, "history-dependent", "")})
          ELSE IF f = k \/ GroupSummary(Trace[f]) = GroupSummary(o) THEN {}
          ELSE {Fail(o.case.group.p, rel, "")}

(* an answer that cannot be written as JSON (a NaN or infinite number in it) is no answer: reported for the case's own *)
(* property and, when exactly one bias fired (so that it is unambiguous who produced the number), for that bias's      *)
Unserialisable(o) == o.status = 200 /\ Has(o.resp, "unmarshalable")
BiasPropOf(name) == IF name = "criteriaOmission" THEN "C15" ELSE IF name = "preferenceReversal" THEN "C16"
                    ELSE IF name = "fatigue" THEN "C17" ELSE IF name = "anchoring" THEN "C19" ELSE "C18"
UnserialisableVerdicts(o) ==
  LET evs == IF Has(o, "events") THEN BiasEvents(o) ELSE <<>>
      firedAt == {i \in DOMAIN evs : evs[i].fired}
  IN {Fail(FailProp(o), "response-not-serialisable", "")}
     \cup (IF Cardinality(firedAt) = 1 /\ Len(ReqBiases(o)) = Len(evs)
           THEN {Fail(BiasPropOf(ReqBiases(o)[CHOOSE i \in firedAt : TRUE].name), "response-not-serialisable", "")} ELSE {})

Verdicts(k) ==
  LET o == Trace[k] IN
  IF Unserialisable(o) THEN UnserialisableVerdicts(o)
  ELSE StatusVerdicts(o) \cup GridVerdicts(o) \cup MethodVerdicts(o) \cup BiasVerdicts(o) \cup GroupVerdicts(k)

Init == l = 0 /\ done = FALSE

Spread == l = 0 /\ l' \in 1..Len(Trace) /\ UNCHANGED done

Eval ==
  /\ l > 0 /\ ~done
  /\ LET V == Verdicts(l) IN
       IF V = {} THEN TRUE
       ELSE PrintT(ToJson([VERDICT |-> l, case |-> Trace[l].case.id, v |-> V]))
  /\ done' = TRUE /\ UNCHANGED l

Next == Spread \/ Eval
Spec == Init /\ [][Next]_vars

(* every line was evaluated: root + one state per line before and after its evaluation *)
AllConsumed == TLCGet("distinct") = 2 * Len(Trace) + 1
=============================================================================
