---------------------------- MODULE Trace_Repeat ----------------------------
(* Validation of repetition histories (C02).  The trace is the sequence of    *)
(* all executions of a pool of requests: repeated in one process, in several  *)
(* fresh processes, in different orders.  `answers` is the history variable   *)
(* of Service.tla (request -> what was ever answered); Service!Deterministic  *)
(* requires it never to hold two different answers: byte-identical bodies for *)
(* accepted requests (compared by digest), the same verdict for rejected ones. *)
EXTENDS Num, Json, TLC

Trace == ndJsonDeserialize("obs.ndjson")
VARIABLES l, answers
vars == <<l, answers>>
Fail(p, why, key) == [p |-> p, why |-> why, key |-> key]

Init == l = 1 /\ answers = <<>>
Next == /\ l <= Len(Trace)
        /\ LET o == Trace[l] IN
           IF o.rid \in DOMAIN answers
           THEN /\ IF answers[o.rid] = o.digest THEN TRUE
                   ELSE PrintT(ToJson([VERDICT |-> l, case |-> o.case.id,
                                       v |-> {Fail("C02", IF o.status = 200 THEN "response-differs" ELSE "verdict-differs", "")}]))
                /\ UNCHANGED answers
           ELSE answers' = (o.rid :> o.digest) @@ answers
        /\ l' = l + 1
Spec == Init /\ [][Next]_vars
AllConsumed == TLCGet("stats").diameter = Len(Trace) + 1
=============================================================================
