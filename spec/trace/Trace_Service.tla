--------------------------- MODULE Trace_Service ---------------------------
(* Validation of a recorded session against the real server process (C20):   *)
(* one line = one POST /api/decide (Accept .. Reply of Service.tla collapsed *)
(* into one step, the client is sequential) followed by the liveness probe.  *)
(* The trace is a behaviour: `alive` is carried from line to line, a dead     *)
(* process must have been restarted by the harness before the next request.  *)
EXTENDS Validate, Json, TLC

Trace == ndJsonDeserialize("obs.ndjson")
VARIABLES l, alive
vars == <<l, alive>>
Fail(p, why, key) == [p |-> p, why |-> why, key |-> key]

Seven == {"weightedSum", "owa", "choquetIntegral", "electreIII", "majorityHeuristic", "aspectEliminationHeuristic", "satisfactionHeuristic"}
Keys(o) == SeqSet(o.bodyKeys)
Exp(o) == IF Has(o.case, "expect") THEN o.case.expect ELSE "any"
Viol(o) == IF Has(o.case, "req") /\ Has(o.case, "structured") /\ o.case.structured THEN Violations(o.case.req, o.case.unit) ELSE {}

Verdicts(o, wasAlive) ==
  (IF ~wasAlive /\ ~o.restartedBefore THEN {Fail("INFRA", "request sent to a dead server", "")} ELSE {})
  \cup (IF o.replied /\ o.alive THEN {} ELSE {Fail("C20", "no-reply-or-process-died", "")})
  \cup (IF ~o.replied THEN {}
        ELSE (IF o.status \in {200, 400} THEN {} ELSE {Fail("C20", "status", "")})
             \cup (IF Viol(o) # {} /\ o.status # 400 THEN {Fail("C20", "constraint-violation-accepted", "")} ELSE {})
             \cup (IF Exp(o) = "reject" /\ o.status # 400 THEN {Fail("C20", "invalid-accepted", "")} ELSE {})
             \cup (IF Exp(o) = "ok" /\ Viol(o) = {} /\ o.status # 200 THEN {Fail("C20", "valid-rejected", "")} ELSE {})
             \cup (IF o.status = 200 /\ ~(Keys(o) = {"result", "biases"} /\ Has(o, "resultIsList")) THEN {Fail("C20", "ok-body", "")} ELSE {})
             \cup (IF o.status = 400 /\ ~({"error", "request"} \subseteq Keys(o)) THEN {Fail("C20", "error-body", "")} ELSE {})
             \cup (IF Has(o.case, "mustListAvailable") /\ o.case.mustListAvailable /\ ~o.listsAvailable THEN {Fail("C20", "available-names-not-listed", "")} ELSE {}))
  \cup (IF o.alive /\ ~(o.fnStatus = 200 /\ SeqSet(o.fnMethods) = Seven) THEN {Fail("C20", "preference-functions-schema", "")} ELSE {})

Init == l = 1 /\ alive = TRUE
Next == /\ l <= Len(Trace)
        /\ LET o == Trace[l]
               V == Verdicts(o, alive)
           IN /\ IF V = {} THEN TRUE ELSE PrintT(ToJson([VERDICT |-> l, case |-> o.case.id, v |-> V]))
              /\ alive' = o.alive
        /\ l' = l + 1
Spec == Init /\ [][Next]_vars
AllConsumed == TLCGet("stats").diameter = Len(Trace) + 1
=============================================================================
