--------------------------- MODULE Trace_Levels ---------------------------
(* Validation of level series recorded from the real iterators (C14): the    *)
(* recorded series must be the one Levels!LGenerated derives, invalid        *)
(* parameters must be rejected, valid ones accepted.                         *)
EXTENDS Levels, Req, Json, TLC

Trace == ndJsonDeserialize("obs.ndjson")
VARIABLES l, done
vars == <<l, done>>

Fail(p, why, key) == [p |-> p, why |-> why, key |-> key]

ToLD(x, u) == (x * LD) \div u      \* ratio in unit u -> ratio over LD

(* criteria as the design modules want them: [id, type, range?] *)
CritOf(c) == IF Has(c, "valuesRange") THEN [id |-> c.id, type |-> c.type, range |-> c.valuesRange]
             ELSE [id |-> c.id, type |-> c.type]

Expected(o) ==
  LET lv == o.case.lv
      u == o.case.unit
      cd == 1024
      cn == (lv.params.coefficient * cd) \div u
  IN LGenerated(lv.dir, lv.function, ToLD(lv.params.minValue, u), ToLD(lv.params.maxValue, u), cn, cd,
                [k \in DOMAIN lv.criteria |-> CritOf(lv.criteria[k])], lv.alternatives)

Monotone(o) ==
  LET s == o.series
      lv == o.case.lv
  IN \A k \in 1..(Len(s) - 1) : \A j \in DOMAIN lv.criteria :
        LET c == lv.criteria[j]
            up == (lv.dir = "inc") = (c.type # "cost")   \* thresholds move up for inc/gain and dec/cost
        IN IF up THEN s[k+1][c.id] >= s[k][c.id] ELSE s[k+1][c.id] <= s[k][c.id]

Verdicts(o) ==
  IF o.overflow > 0 THEN {Fail("INFRA", "overflow", "")}
  ELSE IF ~o.case.valid THEN (IF o.status = 400 THEN {} ELSE {Fail("C14", "invalid-accepted", "")})
  ELSE IF o.status # 200 THEN {Fail("C14", "valid-rejected", "")}
  ELSE IF o.capped THEN {Fail("C14", "endless", "")}
  (* every level of the series states a threshold for every criterion (the other clauses read them) *)
  ELSE IF ~(\A k \in DOMAIN o.series : \A j \in DOMAIN o.case.lv.criteria : Has(o.series[k], o.case.lv.criteria[j].id))
       THEN {Fail("C14", "level-without-threshold-for-a-criterion", "")}
  ELSE (IF Monotone(o) THEN {} ELSE {Fail("C14", "not-monotone", "")})
       \cup (IF ~o.case.exact THEN {}
             ELSE IF o.inexact > 0 THEN {Fail("C14", "off-grid", "")}
             ELSE IF o.series = Expected(o) THEN {} ELSE {Fail("C14", "series", "")})
       \cup (IF o.case.exact \/ (Has(o.case, "nocount") /\ o.case.nocount) \/ Len(o.series) = Len(Expected(o)) THEN {} ELSE {Fail("C14", "count", "")})
       (* additive / subtractive series with decimal parameters: the number of levels is ceil((max - min) / coefficient), *)
       (* give or take one when a level lands on the bound up to float rounding                                      *)
       \cup (LET lv == o.case.lv
                 c == lv.params.coefficient
                 span == lv.params.maxValue - lv.params.minValue
                 n == IF span <= 0 THEN 0 ELSE (span + c - 1) \div c
             IN IF ~o.case.exact /\ lv.function \in {"idealAdditiveCoefficient", "idealSubtractiveCoefficient"}
                   /\ ~(Len(o.series) >= n - 1 /\ Len(o.series) <= n + 1)
                THEN {Fail("C14", "count", "")} ELSE {})
       (* every threshold lies inside the criterion's range (the ratio stays in [0,1]) *)
       \cup (IF \A k \in DOMAIN o.series : \A j \in DOMAIN o.case.lv.criteria :
                   LET c == CritOf(o.case.lv.criteria[j])
                       rg == LRange(c, o.case.lv.alternatives)
                   IN o.series[k][c.id] >= rg.min - 1 /\ o.series[k][c.id] <= rg.max + 1
             THEN {} ELSE {Fail("C14", "threshold-outside-range", "")})

(* independent lines are validated as independent states (see Trace_Decide) *)
Init == l = 0 /\ done = FALSE
Spread == l = 0 /\ l' \in 1..Len(Trace) /\ UNCHANGED done
Eval == /\ l > 0 /\ ~done
        /\ LET V == Verdicts(Trace[l]) IN
             IF V = {} THEN TRUE ELSE PrintT(ToJson([VERDICT |-> l, case |-> Trace[l].case.id, v |-> V]))
        /\ done' = TRUE /\ UNCHANGED l
Next == Spread \/ Eval
Spec == Init /\ [][Next]_vars
AllConsumed == TLCGet("distinct") = 2 * Len(Trace) + 1
=============================================================================
