-------------------------- MODULE Trace_Electre2 --------------------------
(* Validation of the real distillation code (RankAscending, RankDescending,  *)
(* EvaluateRanking) on given credibility matrices: indices and links must be  *)
(* those of Electre!Distil (C05, stage 2).                                    *)
EXTENDS Electre, Req, Json, TLC

Trace == ndJsonDeserialize("obs.ndjson")
VARIABLES l, done
vars == <<l, done>>
Fail(p, why, key) == [p |-> p, why |-> why, key |-> key]

Verdicts(o) ==
  IF o.status # 200 THEN {Fail("C05", "panic", "")}
  ELSE IF o.case.fragile THEN {}
  ELSE
    LET A == SeqSet(o.case.dist.alts)
        den == IF Has(o.case, "mden") THEN o.case.mden ELSE 4
        M == [a \in A |-> [b \in A |-> RNorm(o.case.m4[a][b], den)]]
        s == [a |-> <<o.case.sa[1], o.case.sa[2]>>, b |-> <<o.case.sb[1], o.case.sb[2]>>]
        P == Prep(M, A, s)
        asc == DistilP(P, A, s, MaxCred(M, A), 1, "asc", FALSE)
        dr == DistilP(P, A, s, MaxCred(M, A), 1, "desc", FALSE)
        mx == SetMax({dr[a] : a \in A})
        desc == [a \in A |-> mx + 1 - dr[a]]
        res == o.result
    IN IF {res[k].alternative.id : k \in DOMAIN res} # A \/ Len(res) # Cardinality(A) THEN {Fail("C05", "entries", "")}
       ELSE (IF \A k \in DOMAIN res : res[k].evaluation.ascendingIndex = asc[res[k].alternative.id] THEN {} ELSE {Fail("C05", "ascending", "")})
            \cup (IF \A k \in DOMAIN res : res[k].evaluation.descendingIndex = desc[res[k].alternative.id] THEN {} ELSE {Fail("C05", "descending", "")})
            \cup (IF \A k \in DOMAIN res :
                       SeqSet(res[k].betterThanOrSameAs) =
                         {b \in A \ {res[k].alternative.id} :
                            /\ res[k].evaluation.ascendingIndex <= res[CHOOSE j \in DOMAIN res : res[j].alternative.id = b].evaluation.ascendingIndex
                            /\ res[k].evaluation.descendingIndex <= res[CHOOSE j \in DOMAIN res : res[j].alternative.id = b].evaluation.descendingIndex}
                  THEN {} ELSE {Fail("C05", "links", "")})

(* independent lines are validated as independent states (see Trace_Decide) *)
Init == l = 0 /\ done = FALSE
Spread == l = 0 /\ l' \in 1..Len(Trace) /\ UNCHANGED done
Eval == /\ l > 0 /\ ~done
        /\ LET V == Verdicts(Trace[l]) IN
             IF V = {} THEN TRUE ELSE PrintT(ToJson([VERDICT |-> l, case |-> Trace[l].case.id, v |-> V]))
        /\ done' = TRUE /\ UNCHANGED l
Next == Spread \/ Eval
Spec == Init /\ [][Next]_vars
AllConsumed == TLCGet("distinct") = 2 * Len(Trace) + 1
=============================================================================
