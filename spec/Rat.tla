-------------------------------- MODULE Rat --------------------------------
(* Exact rationals as <<n, d>> with d > 0, always reduced.  TLC integers are *)
(* 32-bit and overflow is an error, so configurations keep numerators and    *)
(* denominators small (dyadic grids, few criteria).                          *)
EXTENDS Num

RNorm(n, d) == LET g == GCD2(n, d)
                   s == IF d < 0 THEN -1 ELSE 1
               IN IF n = 0 THEN <<0, 1>> ELSE <<(s * n) \div g, (s * d) \div g>>
R(n) == <<n, 1>>
RAdd(a, b) == RNorm(a[1] * b[2] + b[1] * a[2], a[2] * b[2])
RSub(a, b) == RNorm(a[1] * b[2] - b[1] * a[2], a[2] * b[2])
RMul(a, b) == RNorm(a[1] * b[1], a[2] * b[2])
RDiv(a, b) == RNorm(a[1] * b[2], a[2] * b[1])
RLt(a, b) == a[1] * b[2] < b[1] * a[2]
RLe(a, b) == a[1] * b[2] <= b[1] * a[2]
RGt(a, b) == RLt(b, a)
REq(a, b) == a = b      \* both reduced with positive denominators: equal iff identical (no products, no overflow)
RZero == <<0, 1>>
ROne == <<1, 1>>
RIsZero(a) == a[1] = 0
IsPow2(k) == LET RECURSIVE P(_)
                 P(x) == IF x = 1 THEN TRUE ELSE IF x % 2 # 0 THEN FALSE ELSE P(x \div 2)
             IN k >= 1 /\ P(k)
RIsDyadic(a) == IsPow2(a[2])
RMaxSet(S) == CHOOSE x \in S : \A y \in S : RLe(y, x)
=============================================================================
