----------------------------- MODULE Validate -----------------------------
(* The documented input constraints of POST /api/decide as predicates over   *)
(* the request (numbers in the family unit u).  Violations(req, u) is the    *)
(* set of constraints a request violates; a request violating any must be    *)
(* answered 400 and never with a ranking (C20).  Constraints of a bias are   *)
(* evaluated for enabled biases that certainly fire (probability absent or 1) *)
EXTENDS Num

Methods7 == {"weightedSum", "owa", "choquetIntegral", "electreIII", "majorityHeuristic",
             "aspectEliminationHeuristic", "satisfactionHeuristic"}
Biases6 == {"criteriaOmission", "criteriaConcealment", "criteriaMixing", "preferenceReversal", "fatigue", "anchoring"}
Orderings5 == {"", "weakest", "strongest", "random", "weakestByProbability", "strongestByProbability"}
RefTypes == {"", "importanceRatio", "randomUniform", "randomWeighted"}
IncFns == {"idealMultipliedCoefficient", "idealAdditiveCoefficient", "thresholds"}
DecFns == {"idealMultipliedCoefficient", "idealSubtractiveCoefficient", "thresholds"}
DrawPolicies == {"", "allow", "current", "newer", "random"}

G(r, f, def) == IF f \in DOMAIN r THEN r[f] ELSE def
CritIdsOf(req) == {req.criteria[i].id : i \in DOMAIN req.criteria}
KnownIds(req) == {req.knownAlternatives[i].id : i \in DOMAIN req.knownAlternatives}
Enabled(req) == SelectSeq(G(req, "biases", <<>>), LAMBDA b : ~G(b, "disabled", FALSE))
Certain(req, u) == SelectSeq(Enabled(req), LAMBDA b : G(b, "applyProbability", u) >= u)

VMethod(req) == ~("preferenceFunction" \in DOMAIN req) \/ req.preferenceFunction \notin Methods7
VBiasName(req) == \E i \in DOMAIN Enabled(req) : G(Enabled(req)[i], "name", "") \notin Biases6
VDupCriterion(req) == \E i, j \in DOMAIN req.criteria : i # j /\ req.criteria[i].id = req.criteria[j].id
VRange(req) == \E i \in DOMAIN req.criteria :
                  "valuesRange" \in DOMAIN req.criteria[i] /\ req.criteria[i].valuesRange.max <= req.criteria[i].valuesRange.min
VMissingValue(req) == \E i \in DOMAIN req.knownAlternatives : ~(CritIdsOf(req) \subseteq DOMAIN req.knownAlternatives[i].criteria)
VUnknownAlternative(req) == ~(SeqSet(G(req, "choseToMake", <<>>)) \subseteq KnownIds(req))

MP(req) == G(req, "methodParameters", <<>>)
VWeights(req) ==
  LET m == G(req, "preferenceFunction", "") IN
  /\ m \in {"weightedSum", "owa", "majorityHeuristic", "aspectEliminationHeuristic"}
  /\ (~("weights" \in DOMAIN MP(req)) \/ ~(CritIdsOf(req) \subseteq DOMAIN MP(req).weights)
      \/ (m = "owa" /\ Cardinality(DOMAIN MP(req).weights) # Cardinality(CritIdsOf(req))))
VChoquet(req, u) ==
  /\ G(req, "preferenceFunction", "") = "choquetIntegral"
  /\ \/ \E i \in DOMAIN req.criteria : G(req.criteria[i], "type", "gain") # "gain"
     \/ ~("weights" \in DOMAIN MP(req))
     \/ \E k \in DOMAIN MP(req).weights : MP(req).weights[k] < 0 \/ MP(req).weights[k] > u
     \/ ~(CritIdsOf(req) \subseteq DOMAIN MP(req).weights)
FB(f) == G(f, "b", 0)
FA(f) == G(f, "a", 0)
VElectre(req, u) ==
  /\ G(req, "preferenceFunction", "") = "electreIII"
  /\ \/ ~("electreCriteria" \in DOMAIN MP(req))
     \/ ~(CritIdsOf(req) \subseteq DOMAIN MP(req).electreCriteria)
     \/ \E c \in CritIdsOf(req) :
          LET e == MP(req).electreCriteria[c]
              q == G(e, "q", <<>>) p == G(e, "p", <<>>) v == G(e, "v", <<>>)
              lastQ == IF FB(q) > 0 THEN FB(q) ELSE 0
              lastP == IF FB(p) > 0 THEN FB(p) ELSE lastQ
          IN \/ G(e, "k", 0) <= 0
             \/ (FA(q) = 0 /\ FB(q) # 0 /\ FB(q) <= 0)
             \/ (FA(p) = 0 /\ FB(p) # 0 /\ FB(p) <= lastQ)
             \/ (FA(v) = 0 /\ FB(v) # 0 /\ FB(v) <= lastP)
     (* a distillation function must not be negative anywhere on [0,1] (otherwise the procedure cannot progress) *)
     \/ ("electreDistillation" \in DOMAIN MP(req) /\
         LET d == MP(req).electreDistillation IN FB(d) < 0 \/ FA(d) + FB(d) < 0)
VLevels(req, u) ==
  LET m == G(req, "preferenceFunction", "")
      inc == m = "aspectEliminationHeuristic"
      fn == G(MP(req), "function", "")
      p == G(MP(req), "params", <<>>)
  IN /\ m \in {"aspectEliminationHeuristic", "satisfactionHeuristic"}
     /\ \/ fn \notin (IF inc THEN IncFns ELSE DecFns)
        \/ (fn = "thresholds" /\ \E i \in DOMAIN G(p, "thresholds", <<>>) : ~(CritIdsOf(req) \subseteq DOMAIN p.thresholds[i]))
        \/ (fn # "thresholds" /\
              \/ G(p, "coefficient", 0) <= 0 \/ G(p, "coefficient", 0) >= u
              \/ G(p, "maxValue", 0) > u \/ G(p, "minValue", 0) > u
              \/ (IF inc THEN G(p, "minValue", 0) < 0 \/ G(p, "maxValue", 0) < 0
                  ELSE G(p, "minValue", 0) <= 0 \/ G(p, "maxValue", 0) <= 0))
VHeuristicChoice(req) ==
  /\ G(req, "preferenceFunction", "") \in {"majorityHeuristic", "satisfactionHeuristic"}
  /\ \/ (G(MP(req), "currentChoice", "") # "" /\ MP(req).currentChoice \notin KnownIds(req))
     \/ (G(req, "preferenceFunction", "") = "majorityHeuristic" /\ G(MP(req), "drawResolution", "") \notin DrawPolicies)

(* ---- bias parameters ---- *)
BP(b) == G(b, "props", <<>>)
VSplit(b, u) ==
  /\ b.name \in {"criteriaOmission", "preferenceReversal"}
  /\ \/ G(BP(b), "ratio", 0) < 0 \/ G(BP(b), "ratio", 0) > u
     \/ G(BP(b), "max", 1000000) < G(BP(b), "min", 0)
     \/ G(BP(b), "ordering", "") \notin Orderings5
VBounding(p) == "allowedValuesRangeScaling" \in DOMAIN p /\ p.allowedValuesRangeScaling = 0
VFatigue(b) == b.name = "fatigue" /\ (G(BP(b), "function", "") \notin {"const", "expFromZero"} \/ VBounding(BP(b)))
VConceal(b) == /\ b.name = "criteriaConcealment"
               /\ \/ ("newCriterionScaling" \in DOMAIN BP(b) /\ BP(b).newCriterionScaling = 0)
                  \/ G(BP(b), "referenceCriterionType", "") \notin RefTypes
                  \/ VBounding(BP(b))
VMix(b, req, u) == /\ b.name = "criteriaMixing" /\ Len(req.criteria) >= 2
                   /\ \/ G(BP(b), "mixingRatio", u \div 2) < 0 \/ G(BP(b), "mixingRatio", u \div 2) > u
                      \/ G(BP(b), "referenceCriterionType", "") \notin RefTypes
FnName(p, f) == G(G(p, f, <<>>), "function", "")
VAnchor(b, req) ==
  /\ b.name = "anchoring"
  /\ \/ Len(G(BP(b), "anchoringAlternatives", <<>>)) = 0
     \/ \E i \in DOMAIN BP(b).anchoringAlternatives : G(BP(b).anchoringAlternatives[i], "alternative", "") \notin KnownIds(req)
     \/ FnName(BP(b), "loss") \notin {"linear", "expFromZero"}
     \/ FnName(BP(b), "gain") \notin {"linear", "expFromZero"}
     \/ FnName(BP(b), "referencePoints") \notin {"ideal", "nadir"}
     \/ FnName(BP(b), "applier") \notin {"inline", "newCriterion"}

BiasViolations(req, u) ==
  LET cs == Certain(req, u) IN
  UNION {(IF VSplit(cs[i], u) THEN {"split"} ELSE {}) \cup (IF VFatigue(cs[i]) THEN {"fatigue"} ELSE {})
         \cup (IF VConceal(cs[i]) THEN {"concealment"} ELSE {}) \cup (IF VMix(cs[i], req, u) THEN {"mixing"} ELSE {})
         \cup (IF VAnchor(cs[i], req) THEN {"anchoring"} ELSE {}) : i \in DOMAIN cs}

(* structural constraints first: the parameter constraints are only read for well-shaped requests *)
Violations(req, u) ==
  IF VMethod(req) THEN {"method"}
  ELSE IF VDupCriterion(req) \/ VRange(req) THEN {"criteria"}
  ELSE IF VMissingValue(req) THEN {"missing-value"}
  ELSE (IF VUnknownAlternative(req) THEN {"unknown-alternative"} ELSE {})
       \cup (IF VBiasName(req) THEN {"bias-name"} ELSE {})
       \cup (IF VWeights(req) THEN {"weights"} ELSE {})
       \cup (IF VChoquet(req, u) THEN {"choquet"} ELSE {})
       \cup (IF VElectre(req, u) THEN {"electre"} ELSE {})
       \cup (IF VLevels(req, u) THEN {"levels"} ELSE {})
       \cup (IF VHeuristicChoice(req) THEN {"heuristic-choice"} ELSE {})
       \cup (IF VBiasName(req) THEN {} ELSE BiasViolations(req, u))
=============================================================================
