---------------------------- MODULE Importance ----------------------------
(* Importance of a criterion as each method's listener documents it, and the *)
(* count / ordering rule shared by criteria omission and preference reversal *)
(* (C15, C16).  st is a pipeline state [criteria, considered, notConsidered, *)
(* params, weightSets]; all numbers are integers of the family unit.         *)
EXTENDS Req, Utility

ConsIds(st) == {st.considered[k].id : k \in DOMAIN st.considered}
ConsVal(st, a, c) == AltById(st.considered, a).criteria[c]
SumCons(st, c) == SumOver(ConsIds(st), LAMBDA a : ConsVal(st, a, c))

SeqWeight(ws, c) == ws[CHOOSE i \in DOMAIN ws : ws[i].Criterion.Id = c].Weight

(* Choquet: every increment v(k)-v(k-1) times capacity is credited to all criteria of the remaining set *)
RECURSIVE ChoquetCredit(_, _, _, _, _)
ChoquetCredit(Rem, prev, mu, x, c) ==
  IF Rem = {} THEN 0
  ELSE LET lo  == SetMin({x[d] : d \in Rem})
           grp == {d \in Rem : x[d] = lo}
       IN (IF c \in Rem THEN mu[Rem] * (lo - prev) ELSE 0) + ChoquetCredit(Rem \ grp, lo, mu, x, c)

MuOfSt(st) == [S \in {SeqSet(st.weightSets[i].set) : i \in DOMAIN st.weightSets} |->
                 st.weightSets[CHOOSE i \in DOMAIN st.weightSets : SeqSet(st.weightSets[i].set) = S].w]

(* importance of criterion c (comparable only within one state and method) *)
Imp(method, st, c) ==
  IF method = "weightedSum" THEN SeqWeight(st.params.weightedCriteria, c) * SumCons(st, c)
  ELSE IF method \in {"owa", "satisfactionHeuristic"} THEN SumCons(st, c)
  ELSE IF method \in {"majorityHeuristic", "aspectEliminationHeuristic"} THEN st.params.Weights[c]
  ELSE IF method = "electreIII" THEN st.params.Criteria[c].K
  ELSE SumOver(ConsIds(st), LAMBDA a :
         ChoquetCredit(StCritIds(st), 0, MuOfSt(st), AltById(st.considered, a).criteria, c))

(* weakest-first order: stable ascending sort of the declared order *)
RECURSIVE StableAsc(_, _)
StableAsc(seq, key) ==
  IF seq = <<>> THEN <<>>
  ELSE LET i == CHOOSE i \in DOMAIN seq : \A j \in DOMAIN seq : key[seq[i]] < key[seq[j]] \/ (key[seq[i]] = key[seq[j]] /\ i <= j)
       IN <<seq[i]>> \o StableAsc([k \in 1..(Len(seq) - 1) |-> IF k < i THEN seq[k] ELSE seq[k+1]], key)

(* number of criteria taken from the front: floor(n * ratio) clamped to [min, max]; ratio = rn/rd *)
SplitCount(n, rn, rd, mn, mx) ==
  LET p == (n * rn) \div rd IN IF p < mn THEN mn ELSE IF p > mx THEN mx ELSE p

(* the probability intervals of weakestByProbability: a criterion's interval shrinks as its importance grows *)
WbpWeight(minImp, imp) == IF minImp <= 1 THEN <<1, imp + (1 - minImp)>> ELSE <<minImp, imp>>   \* unused by contracts: documentation
=============================================================================
