#!/bin/sh
# usage: build_harness.sh <scratch-dir> [race]
# Copies the harness sources to <scratch-dir>/harness, adds a fresh copy of /repo/httpClient/main.go
# (func main renamed) and builds against /repo/lib (replace directive) with the verif tag.
set -e
D="$1"; RACE="$2"
VD="$(cd "$(dirname "$0")/.." && pwd)"
REPO="${VERIF_REPO:-/repo}"   # the tree under test (default /repo; a scratch worktree when evaluating seeded changes)
export GOFLAGS=-mod=mod GOPROXY=off GOSUMDB=off GOTOOLCHAIN=local
mkdir -p "$D/harness"
cp "$VD"/harness/*.go "$D/harness/"
sed -e "s#=> /repo/lib#=> $REPO/lib#" "$VD/harness/go.mod" > "$D/harness/go.mod"
cp "$REPO/httpClient/go.sum" "$D/harness/go.sum"
sed -e 's/^func main() {/func repoMain() {/' "$REPO/httpClient/main.go" > "$D/harness/main_repo.go"
grep -q '^func repoMain() {' "$D/harness/main_repo.go" || { echo "build_harness: could not rename main in main.go" >&2; exit 2; }
cd "$D/harness"
if [ "$RACE" = "server" ]; then
  # the real service binary: /repo/httpClient/main.go against /repo/lib (its go.mod pins a module-cache copy of lib)
  cp "$REPO/httpClient/go.mod" "$D/server.mod"
  cp "$REPO/httpClient/go.sum" "$D/server.sum"
  echo "replace github.com/Azbesciak/RealDecisionMaker/lib => $REPO/lib" >> "$D/server.mod"
  (cd "$REPO/httpClient" && go build -modfile="$D/server.mod" -o "$D/server" .)
  exit 0
fi
if [ "$RACE" = "race" ]; then
  go build -tags verif -race -o "$D/harness/harness_race" . 
else
  go build -tags verif -o "$D/harness/harness" .
fi
