#!/bin/sh
# usage: build_harness.sh <scratch-dir> [race]
# Copies the harness sources to <scratch-dir>/harness, adds a fresh copy of /repo/httpClient/main.go
# (func main renamed) and builds against /repo/lib (replace directive) with the verif tag.
set -e
D="$1"; RACE="$2"
export GOFLAGS=-mod=mod GOPROXY=off GOSUMDB=off GOTOOLCHAIN=local
mkdir -p "$D/harness"
cp /verif/harness/*.go /verif/harness/go.mod "$D/harness/"
cp /repo/httpClient/go.sum "$D/harness/go.sum"
sed -e 's/^func main() {/func repoMain() {/' /repo/httpClient/main.go > "$D/harness/main_repo.go"
grep -q '^func repoMain() {' "$D/harness/main_repo.go" || { echo "build_harness: could not rename main in main.go" >&2; exit 2; }
cd "$D/harness"
if [ "$RACE" = "server" ]; then
  # the real service binary: /repo/httpClient/main.go against /repo/lib (its go.mod pins a module-cache copy of lib)
  cp /repo/httpClient/go.mod "$D/server.mod"
  cp /repo/httpClient/go.sum "$D/server.sum"
  echo 'replace github.com/Azbesciak/RealDecisionMaker/lib => /repo/lib' >> "$D/server.mod"
  (cd /repo/httpClient && go build -modfile="$D/server.mod" -o "$D/server" .)
  exit 0
fi
if [ "$RACE" = "race" ]; then
  go build -tags verif -race -o "$D/harness/harness_race" . 
else
  go build -tags verif -o "$D/harness/harness" .
fi
