#!/usr/bin/env python3
"""Regenerates MANIFEST.json from drivers/families.py (claimed properties) and the notes below."""
import json, os, sys
VERIF = os.path.dirname(os.path.dirname(os.path.abspath(__file__)))
sys.path.insert(0, os.path.join(VERIF, 'drivers'))
import families
props = [json.loads(l) for l in open(os.path.join(VERIF, 'properties.jsonl'))]
claimed = sorted(families.PROPS)
NA = getattr(families, 'NOT_APPLICABLE', {})
hooks = [l.split()[0] for l in os.popen("git -C /repo log --format='%h %s' | grep -i 'verif hook'").read().splitlines()]
m = {
    "version": 1,
    "setup_cmd": "sh /verif/bin/setup.sh",
    "hooks": {"guard": "verif",
              "enable": "go build -tags verif (harness module with replace github.com/Azbesciak/RealDecisionMaker/lib => /repo/lib; see bin/build_harness.sh)",
              "baseline_off_cmd": "for m in lib httpClient; do (cd /repo/$m && GOFLAGS=-mod=mod GOPROXY=off GOSUMDB=off go test -json -vet=off -count=1 -timeout 25m ./...); done",
              "source_commits": hooks, "add_only": True},
    "engines": [{"name": "check", "path": "/verif/bin/check", "serves_properties": claimed,
                 "kind_free_text": "TLA+ specification (spec/*.tla) + TLC: bounded model checking of the design modules (spec/mc), generation of replayable cases, replay through the real code by a Go harness built from /repo's working tree (tag verif), and TLC trace validation (spec/trace) of the recorded behaviour against the contracts"}],
    "checks": [],
    "not_applicable": [{"property_id": p['id'], "reason": NA.get(p['id'], "not yet built in this round (planned, see DESIGN.md section 7)")} for p in props if p['id'] not in claimed],
    "notes": "exit 0 = held (KNOWN-FINDING lines allowed), 1 = VIOLATION, 2 = infrastructure problem (never a verdict). VERIF_SEED seeds the random drivers and the sampling of TLC-generated cases; VERIF_TIER or --tier selects quick/thorough.",
}
for pid in claimed:
    sp = families.PROPS[pid]
    m["checks"].append({
        "property_id": pid,
        "quick_cmd": "./bin/check %s --tier quick" % pid,
        "thorough_cmd": "./bin/check %s --tier thorough" % pid,
        "evidence_file": "/verif/evidence/%s.json" % pid,
        "replay_cmd_template": "./bin/check %s --replay {path}" % pid,
        "engine": "check",
        "level_claimed": {"category": "model_checking",
                          "text": sp.get('level_text', "TLC model-checks the TLA+ design model of the families %s on a bounded instance space and emits every instance as a case; each case (plus seeded random and boundary cases) is executed by the real code and the recorded behaviour is validated by TLC against the property's contract and, where the property determines the output, against the reference model" % ', '.join(sp['families'])),
                          "design_ref": sp.get('design_ref', "DESIGN.md section 7, " + pid)},
        "level_note": sp.get('level_note', "bounded exhaustive families + seeded random instances beyond the bound; arithmetic checked on exact dyadic grids (float accuracy on arbitrary reals is outside this technique); trusts TLC, the Go harness projection (rounding to integers of the family unit with an inexactness counter) and the build of /repo with tag verif"),
        "technique": sp.get('technique', "explicit TLA+ spec; TLC model checking + generated-case replay + TLC trace validation of real executions"),
    })
json.dump(m, open(os.path.join(VERIF, 'MANIFEST.json'), 'w'), indent=1)
print('claimed', claimed)
