#!/usr/bin/env python3
"""Re-run the registered checks against every seeded change stored under /verif/seeded.

usage: seeded_regress.py [--only C06a,C18c] [--jobs 2] [--update]
For each <id>: scratch worktree of /repo HEAD outside /repo and /verif, `git apply patch.diff`, then
`VERIF_REPO=<worktree> bin/check <prop>` for the change's own property and for the properties that detected it
before.  Prints one line per change; with --update the stored meta.json gets the new results.  Worktrees are removed.
"""
import sys, os, json, subprocess, shutil, glob, argparse, re
from concurrent.futures import ThreadPoolExecutor

VERIF = os.path.dirname(os.path.dirname(os.path.abspath(__file__)))
ENV = dict(os.environ, GOFLAGS='-mod=mod', GOPROXY='off', GOSUMDB='off', GOTOOLCHAIN='local')


def sh(cmd, env=None, timeout=6000):
    p = subprocess.run(cmd, env=env or ENV, stdout=subprocess.PIPE, stderr=subprocess.STDOUT, timeout=timeout)
    return p.returncode, p.stdout.decode('utf-8', 'replace')


def one(sid, update, extra=()):
    d = os.path.join(VERIF, 'seeded', sid)
    meta = json.load(open(os.path.join(d, 'meta.json')))
    wt = '/tmp/ev/regress_%s' % sid
    sh(['git', '-C', '/repo', 'worktree', 'remove', '--force', wt])
    shutil.rmtree(wt, ignore_errors=True)
    os.makedirs('/tmp/ev', exist_ok=True)
    rc, out = sh(['git', '-C', '/repo', 'worktree', 'add', '-q', '--detach', wt, 'HEAD'])
    res = {}
    try:
        rc, out = sh(['git', '-C', wt, 'apply', os.path.join(d, 'patch.diff')])
        if rc != 0:
            return sid, {'error': 'patch does not apply: ' + out[-200:]}
        props = [meta['property']] + [p for p in list(meta.get('detected_by') or []) + list(extra) if p != meta['property']]
        props = list(dict.fromkeys(props))
        for pid in props:
            env = dict(ENV, VERIF_REPO=wt, VERIF_REPLAYS='/tmp/ev/regress_rp_%s' % sid, VERIF_LOGS='/tmp/ev/regress_lg_%s' % sid)
            rc, out = sh([os.path.join(VERIF, 'bin', 'check'), pid], env=env)
            lines = [l for l in out.splitlines() if l.startswith(('VIOLATION', 'INFRA', 'check '))]
            res[pid] = {'rc': rc, 'lines': [l[:200] for l in lines][:6]}
            if pid == meta['property'] and rc == 1 and not update:
                break
    finally:
        sh(['git', '-C', '/repo', 'worktree', 'remove', '--force', wt])
        shutil.rmtree(wt, ignore_errors=True)
        shutil.rmtree('/tmp/ev/regress_rp_%s' % sid, ignore_errors=True)
        shutil.rmtree('/tmp/ev/regress_lg_%s' % sid, ignore_errors=True)
    if update:
        meta['checks'] = res
        meta['detected_by'] = sorted(p for p, r in res.items() if r['rc'] == 1)
        head = subprocess.run(['git', '-C', VERIF, 'rev-parse', '--short', 'HEAD'], stdout=subprocess.PIPE).stdout.decode().strip()
        meta['what_i_ran'] = 'bin/seeded.py (suite + demo in scratch worktrees) when stored; checks re-run by bin/seeded_regress.py at /verif commit %s' % head
        json.dump(meta, open(os.path.join(d, 'meta.json'), 'w'), indent=1)
    return sid, res


def main():
    ap = argparse.ArgumentParser()
    ap.add_argument('--only', default='')
    ap.add_argument('--jobs', type=int, default=2)
    ap.add_argument('--update', action='store_true')
    ap.add_argument('--extra', default='', help='further properties to run, e.g. C03,C09')
    a = ap.parse_args()
    ids = sorted(os.path.basename(p) for p in glob.glob(os.path.join(VERIF, 'seeded', 'C*')))
    if a.only:
        ids = [i for i in ids if i in a.only.split(',')]
    bad = 0
    with ThreadPoolExecutor(a.jobs) as ex:
        for sid, res in ex.map(lambda s: one(s, a.update, [p for p in a.extra.split(',') if p]), ids):
            det = sorted(p for p, r in res.items() if isinstance(r, dict) and r.get('rc') == 1)
            other = {p: r.get('rc') for p, r in res.items() if isinstance(r, dict) and r.get('rc') not in (0, 1)}
            own = sid[:3] in det
            print('%s detected_by=%s%s%s' % (sid, ','.join(det) or 'NONE', '' if own else '  (not by its own property)', '  INFRA %s' % other if other or 'error' in res else ''), flush=True)
            if not det:
                bad += 1
    print('%d change(s) undetected' % bad)
    return 1 if bad else 0


if __name__ == '__main__':
    sys.exit(main())
