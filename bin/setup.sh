#!/bin/sh
# Offline setup: nothing is downloaded.  Warms the Go build cache by building the harness once and
# checks that TLC starts.  All checks rebuild the harness from /repo's working tree themselves.
set -e
D=$(mktemp -d)
trap 'rm -rf "$D"' EXIT
VD="$(cd "$(dirname "$0")/.." && pwd)"
sh "$VD/bin/build_harness.sh" "$D"
sh "$VD/bin/build_harness.sh" "$D" race
sh "$VD/bin/build_harness.sh" "$D" server
tlc -h >/dev/null 2>&1 || true
echo setup ok
