#!/bin/sh
# Offline setup: nothing is downloaded.  Warms the Go build cache by building the harness once and
# checks that TLC starts.  All checks rebuild the harness from /repo's working tree themselves.
set -e
D=$(mktemp -d)
trap 'rm -rf "$D"' EXIT
sh /verif/bin/build_harness.sh "$D"
sh /verif/bin/build_harness.sh "$D" race
tlc -h >/dev/null 2>&1 || true
echo setup ok
