#!/usr/bin/env python3
"""Confirm and evaluate a seeded change produced by an independent sub-agent.

usage: seeded.py <out_dir> <x> [--props C01,C04] [--tier quick] [--keep-as NAME]
  <out_dir>/<x>.patch.diff, <x>.meta.json, demo file(s) named <x>_demo*.go or <x>_demo/

Steps (all in scratch worktrees of /repo outside /repo and /verif, removed afterwards):
  1. the patch applies to /repo HEAD, the tree builds and the whole existing suite passes with it;
  2. the demonstration fails with the patch and passes without it;
  3. the registered checks of the given properties are run against the patched worktree (VERIF_REPO).
Prints a JSON summary; with --keep-as the change is stored under /verif/seeded/<NAME>/.
"""
import sys, os, json, subprocess, shutil, glob, argparse, tempfile

ENV = dict(os.environ, GOFLAGS='-mod=mod', GOPROXY='off', GOSUMDB='off', GOTOOLCHAIN='local')
VERIF = os.path.dirname(os.path.dirname(os.path.abspath(__file__)))


def sh(cmd, cwd=None, env=None, timeout=3000):
    p = subprocess.run(cmd, cwd=cwd, env=env or ENV, shell=isinstance(cmd, str), stdout=subprocess.PIPE, stderr=subprocess.STDOUT, timeout=timeout)
    return p.returncode, p.stdout.decode('utf-8', 'replace')


def worktree(path):
    sh(['git', '-C', '/repo', 'worktree', 'remove', '--force', path])
    shutil.rmtree(path, ignore_errors=True)
    rc, out = sh(['git', '-C', '/repo', 'worktree', 'add', '-q', '--detach', path, 'HEAD'])
    if rc != 0:
        raise SystemExit('worktree add failed: ' + out)


def drop(path):
    sh(['git', '-C', '/repo', 'worktree', 'remove', '--force', path])
    shutil.rmtree(path, ignore_errors=True)


def place_demo(outdir, x, wt, meta):
    demo_dir = (meta.get('demo_dir', '').split() or [''])[0].rstrip(';,.')
    demo_dir = demo_dir.replace('/tmp/wt/%s/' % meta.get('property', ''), '')
    demo_dir = demo_dir.split('/tmp/wt/')[-1]
    if demo_dir.startswith(meta.get('property', '~') + '/'):
        demo_dir = demo_dir[len(meta['property']) + 1:]
    dst = os.path.join(wt, demo_dir)
    os.makedirs(dst, exist_ok=True)
    placed = []
    if 'cp ' in meta.get('demo_cmd', '') and '_demo' in meta.get('demo_cmd', '').split('go test')[0]:      # the demo command places the file itself
        return dst, placed
    for f in glob.glob(os.path.join(outdir, x + '_demo*')):
        if os.path.isdir(f):
            t = os.path.join(dst, os.path.basename(f))
            shutil.copytree(f, t)
            placed.append(t)
        else:
            t = os.path.join(dst, os.path.basename(f))
            shutil.copy(f, t)
            placed.append(t)
    return dst, placed


def demo_cmd(meta, wt):
    cmd = meta.get('demo_cmd', '')
    prop = meta.get('property', '')
    return cmd.replace('/tmp/wt/%s' % prop, wt)


def main():
    ap = argparse.ArgumentParser()
    ap.add_argument('outdir')
    ap.add_argument('x')
    ap.add_argument('--props', default='')
    ap.add_argument('--tier', default='quick')
    ap.add_argument('--keep-as')
    ap.add_argument('--skip-confirm', action='store_true')
    a = ap.parse_args()
    meta = json.load(open(os.path.join(a.outdir, a.x + '.meta.json')))
    patch = os.path.join(a.outdir, a.x + '.patch.diff')
    tag = os.path.basename(os.path.normpath(a.outdir)) + a.x
    wt_p = '/tmp/ev/%s_patched' % tag
    wt_c = '/tmp/ev/%s_clean' % tag
    os.makedirs('/tmp/ev', exist_ok=True)
    res = {'id': tag, 'property': meta.get('property'), 'what': meta.get('what'), 'needs': meta.get('needs_to_manifest')}
    try:
        worktree(wt_p)
        rc, out = sh(['git', '-C', wt_p, 'apply', patch])
        res['applies'] = rc == 0
        if rc != 0:
            res['apply_error'] = out[-500:]
            print(json.dumps(res, indent=1))
            return 2
        if not a.skip_confirm:
            rc, out = sh('go build ./... && go test -count=1 ./... 2>&1 | grep -v "no test files"', cwd=os.path.join(wt_p, 'lib'))
            res['suite_passes_with_patch'] = rc == 0 and 'FAIL' not in out
            if not res['suite_passes_with_patch']:
                res['suite_output'] = out[-800:]
            # demo with patch
            _d, placed = place_demo(a.outdir, a.x, wt_p, meta)
            rc1, out1 = sh(demo_cmd(meta, wt_p), cwd=wt_p)
            res['demo_fails_with_patch'] = rc1 != 0
            for f in placed:
                if os.path.isdir(f):
                    shutil.rmtree(f)
                else:
                    os.remove(f)
            sh(['git', '-C', wt_p, 'clean', '-fdq'])
            worktree(wt_c)
            _d, placed = place_demo(a.outdir, a.x, wt_c, meta)
            rc2, out2 = sh(demo_cmd(meta, wt_c), cwd=wt_c)
            res['demo_passes_without_patch'] = rc2 == 0
            if rc2 != 0:
                res['demo_clean_output'] = out2[-600:]
            if rc1 == 0:
                res['demo_patched_output'] = out1[-600:]
            drop(wt_c)
        # run the checks against the patched tree
        res['checks'] = {}
        for pid in [p for p in a.props.split(',') if p]:
            env = dict(os.environ, VERIF_REPO=wt_p, VERIF_REPLAYS='/tmp/ev/replays_%s' % tag, VERIF_LOGS='/tmp/ev/logs_%s' % tag)
            rc, out = sh([os.path.join(VERIF, 'bin', 'check'), pid, '--tier', a.tier], env=env, timeout=6000)
            lines = [l for l in out.splitlines() if l.startswith('VIOLATION') or l.startswith('INFRA') or l.startswith('check ')]
            res['checks'][pid] = {'rc': rc, 'lines': [l[:200] for l in lines][:6]}
        res['detected_by'] = sorted(p for p, r in res['checks'].items() if r['rc'] == 1)
        if a.keep_as:
            dst = os.path.join(VERIF, 'seeded', a.keep_as)
            os.makedirs(dst, exist_ok=True)
            shutil.copy(patch, os.path.join(dst, 'patch.diff'))
            for f in glob.glob(os.path.join(a.outdir, a.x + '_demo*')):
                if os.path.isdir(f):
                    shutil.copytree(f, os.path.join(dst, os.path.basename(f)), dirs_exist_ok=True)
                else:
                    shutil.copy(f, dst)
            m = {'property': meta.get('property'), 'what': meta.get('what'), 'needs_to_manifest': meta.get('needs_to_manifest'),
                 'files_changed': meta.get('files_changed'), 'demo_dir': meta.get('demo_dir'), 'demo_cmd': meta.get('demo_cmd'),
                 'why_tests_pass': meta.get('why_tests_pass'), 'source': 'independent sub-agent given only the property text and a scratch worktree',
                 'confirmed': {k: res.get(k) for k in ('applies', 'suite_passes_with_patch', 'demo_fails_with_patch', 'demo_passes_without_patch')},
                 'what_i_ran': 'bin/seeded.py (suite + demo in scratch worktrees), then VERIF_REPO=<patched worktree> bin/check <props> --tier ' + a.tier,
                 'checks': res['checks'], 'detected_by': res['detected_by']}
            json.dump(m, open(os.path.join(dst, 'meta.json'), 'w'), indent=1)
    finally:
        drop(wt_p)
        drop(wt_c)
        shutil.rmtree('/tmp/ev/replays_%s' % tag, ignore_errors=True)
    print(json.dumps(res, indent=1))
    return 0


if __name__ == '__main__':
    sys.exit(main())
