package main

import (
	"bytes"
	"encoding/json"
	"fmt"
	"io/ioutil"
	"net"
	"net/http"
	"os"
	"os/exec"
	"sort"
	"strings"
	"time"
)

// serve mode: the REAL server binary (built from /repo/httpClient against /repo/lib) on a loopback port.
// Every case is one POST /api/decide followed by a liveness probe GET /api/preferenceFunctions; a dead or
// mute process is recorded (alive=false) and restarted for the next case.

type serverProc struct {
	cmd  *exec.Cmd
	port int
	done chan error
}

var serverBinary string

func freePort() int {
	l, err := net.Listen("tcp", "127.0.0.1:0")
	if err != nil {
		die(2, "no free port: %v", err)
	}
	defer l.Close()
	return l.Addr().(*net.TCPAddr).Port
}

func startServer() *serverProc {
	for attempt := 0; attempt < 5; attempt++ {
		p := &serverProc{port: freePort(), done: make(chan error, 1)}
		p.cmd = exec.Command(serverBinary)
		p.cmd.Env = append(os.Environ(), fmt.Sprintf("PORT=%d", p.port), "GIN_MODE=release")
		p.cmd.Stdout = nil
		p.cmd.Stderr = nil
		p.cmd.Dir = os.TempDir()
		if err := p.cmd.Start(); err != nil {
			die(2, "cannot start server: %v", err)
		}
		go func() { p.done <- p.cmd.Wait() }()
		deadline := time.Now().Add(15 * time.Second)
		for time.Now().Before(deadline) {
			st, _, err := httpDo("GET", p.port, "/api/preferenceFunctions", nil, 2*time.Second)
			if err == nil && st == 200 {
				return p
			}
			select {
			case <-p.done:
				deadline = time.Now() // exited (port race?): retry with another port
			default:
				time.Sleep(50 * time.Millisecond)
			}
		}
		p.kill()
	}
	die(2, "server does not come up")
	return nil
}

func (p *serverProc) exited() bool {
	select {
	case err := <-p.done:
		p.done <- err
		return true
	default:
		return false
	}
}

func (p *serverProc) kill() {
	if p.cmd.Process != nil {
		p.cmd.Process.Kill()
	}
}

func httpDo(method string, port int, path string, body []byte, timeout time.Duration) (int, []byte, error) {
	c := &http.Client{Timeout: timeout}
	var rd *bytes.Reader
	if body != nil {
		rd = bytes.NewReader(body)
	} else {
		rd = bytes.NewReader(nil)
	}
	req, err := http.NewRequest(method, fmt.Sprintf("http://127.0.0.1:%d%s", port, path), rd)
	if err != nil {
		return 0, nil, err
	}
	if body != nil {
		req.Header.Set("Content-Type", "application/json")
	}
	resp, err := c.Do(req)
	if err != nil {
		return 0, nil, err
	}
	defer resp.Body.Close()
	b, err := ioutil.ReadAll(resp.Body)
	return resp.StatusCode, b, err
}

func runServe(cases []J, ow *obsWriter) {
	if serverBinary == "" {
		die(2, "serve mode needs -server <binary>")
	}
	var srv *serverProc
	defer func() {
		if srv != nil {
			srv.kill()
		}
	}()
	noReply := 0
	for seq, c := range cases {
		restarted := false
		if srv == nil {
			srv = startServer()
			restarted = true
		}
		var body []byte
		var reqTree interface{}
		if raw, ok := c["rawBody"].(string); ok {
			body = []byte(raw)
		} else {
			reqTree = realise(c["req"], "", "", unitOf(c))
			applyNudges(reqTree, c)
			b, err := json.Marshal(reqTree)
			if err != nil {
				die(2, "case %v: marshal: %v", c["id"], err)
			}
			body = b
		}
		to := 20 * time.Second
		if t, ok := c["timeoutSec"].(float64); ok {
			to = time.Duration(t) * time.Second
		}
		st, rb, err := httpDo("POST", srv.port, "/api/decide", body, to)
		obs := J{"case": c, "seq": seq + 1, "restartedBefore": restarted, "status": st, "replied": err == nil}
		keys := []interface{}{}
		errText := ""
		availListed := false
		if err == nil {
			if m, ok := parseBody(rb).(map[string]interface{}); ok {
				ks := make([]string, 0, len(m))
				for k := range m {
					ks = append(ks, k)
				}
				sort.Strings(ks)
				for _, k := range ks {
					keys = append(keys, k)
				}
				if e, ok := m["error"]; ok {
					errText = fmt.Sprint(e)
				}
				if _, isList := m["result"].([]interface{}); isList {
					obs["resultIsList"] = true
				}
			}
		} else {
			errText = "transport: " + err.Error()
		}
		if len(errText) > 400 {
			errText = errText[:400]
		}
		if strings.Contains(errText, "available are") {
			availListed = true
		}
		obs["bodyKeys"] = keys
		obs["error"] = errText
		obs["listsAvailable"] = availListed
		// liveness probe
		fst, fb, ferr := httpDo("GET", srv.port, "/api/preferenceFunctions", nil, 10*time.Second)
		methods := []interface{}{}
		if ferr == nil {
			if m, ok := parseBody(fb).(map[string]interface{}); ok {
				ks := make([]string, 0, len(m))
				for k, v := range m {
					if _, isObj := v.(map[string]interface{}); isObj {
						ks = append(ks, k)
					}
				}
				sort.Strings(ks)
				for _, k := range ks {
					methods = append(methods, k)
				}
			}
		}
		alive := ferr == nil && fst == 200 && !srv.exited()
		obs["alive"] = alive
		obs["fnStatus"] = fst
		obs["fnMethods"] = methods
		if !alive || err != nil { // a request without an answer leaves a handler hanging: the next one gets a fresh process
			srv.kill()
			srv = nil
		}
		ow.emit(obs)
		if err != nil {
			noReply++
			if noReply >= 4 { // a service that stopped answering is not asked three hundred more times
				break
			}
		}
	}
}
