// Conformance harness: turns TLC-generated / driver-generated cases into real requests, runs the
// real code from /repo (lib via replace, main.go copied into this package as main_repo.go with
// func main renamed), and writes integer-projected observations for TLC trace validation.
// It never judges a property; every verdict is produced by TLC from the observation file.
package main

import (
	"bufio"
	"bytes"
	"encoding/json"
	"flag"
	"fmt"
	"io"
	"math"
	"net/http/httptest"
	"os"
	"sort"
	"strings"

	"github.com/gin-gonic/gin"
)

type J = map[string]interface{}

func die(code int, f string, a ...interface{}) {
	fmt.Fprintf(os.Stderr, "harness: "+f+"\n", a...)
	os.Exit(code)
}

// ---------- case -> request ----------

// realise converts the abstract case tree into a JSON-ready tree.  Integers are in the family
// unit: a number leaf x becomes x/unit unless its key is integer-valued (seeds, counts; `min`/`max`
// outside a valuesRange are the split bounds).  {"n":a,"d":b} -> a/b regardless of the unit,
// {"null":true} -> nil, {"emptyobj":true} -> {}, {"emptyarr":true} -> [], {"int":k} -> k unscaled.
var intReqKeys = map[string]bool{
	"randomSeed": true, "biasApplyRandomSeed": true, "newCriterionRandomSeed": true, "queryNumber": true,
}

func realise(v interface{}, key, parent string, unit float64) interface{} {
	switch t := v.(type) {
	case float64:
		if intReqKeys[key] || ((key == "min" || key == "max") && parent != "valuesRange") {
			return t
		}
		return t / unit
	case map[string]interface{}:
		if len(t) == 3 { // {"n":a,"d":b,"e":k} -> a/b * 2^k (tiny or huge scalings that do not fit the 32-bit case integers)
			n, okn := t["n"].(float64)
			d, okd := t["d"].(float64)
			e, oke := t["e"].(float64)
			if okn && okd && oke && d != 0 {
				return n / d * math.Pow(2, e)
			}
		}
		if len(t) == 2 {
			n, okn := t["n"]
			d, okd := t["d"]
			if okn && okd {
				nf, ok1 := n.(float64)
				df, ok2 := d.(float64)
				if ok1 && ok2 {
					if df == 0 {
						die(2, "rational with zero denominator")
					}
					return nf / df
				}
			}
		}
		if len(t) == 1 {
			if b, ok := t["null"]; ok && b == true {
				return nil
			}
			if b, ok := t["emptyobj"]; ok && b == true {
				return map[string]interface{}{}
			}
			if b, ok := t["emptyarr"]; ok && b == true {
				return []interface{}{}
			}
			if k, ok := t["int"]; ok {
				return k
			}
		}
		out := make(map[string]interface{}, len(t))
		for k, x := range t {
			out[k] = realise(x, k, key, unit)
		}
		return out
	case []interface{}:
		out := make([]interface{}, len(t))
		for i, x := range t {
			out[i] = realise(x, key, parent, unit)
		}
		return out
	default:
		return v
	}
}

// ---------- response -> integers ----------

var unscaledKeys = map[string]bool{
	"thresholdsIndex": true, "ascendingIndex": true, "descendingIndex": true, "cred6": true,
}

// keys whose null value means "empty list"
var listKeys = map[string]bool{
	"betterThanOrSameAs": true, "biases": true, "result": true, "omittedCriteria": true,
	"addedCriteria": true, "reversedPreferenceCriteria": true, "thresholds": true,
	"consideredAlternatives": true, "notConsideredAlternatives": true, "appliedDifferences": true,
	"referencePoints": true, "perReferencePointsDifferences": true, "referencePointsDifference": true,
}

type projector struct {
	unit     float64
	vscale   float64 // > 0: the criteria values of the request were multiplied by it (case.vscale); criteria values and
	// utility values of the response and of the recorded states are divided by it again before projection
	inexact  int
	overflow int
	mode     string // "exact" (round, count inexact) or "interval" (emit lo/hi)
}

func (p *projector) num(x float64, key string) interface{} {
	if unscaledKeys[key] {
		return int64(x)
	}
	if math.IsNaN(x) || math.IsInf(x, 0) {
		p.overflow++
		return int64(0)
	}
	y := x * p.unit
	r := math.Round(y)
	if math.Abs(r) > 1000000000 { // beyond TLC's 32-bit integers: saturate and count; the trace side then
		p.overflow++ // skips the numeric contracts of this line (structural ones remain)
		if r > 0 {
			return int64(1000000000)
		}
		return int64(-1000000000)
	}
	if math.Abs(y-r) > 1e-6*math.Max(1, math.Abs(y)) {
		p.inexact++
	}
	if p.mode == "interval" {
		lo, hi := math.Floor(y), math.Ceil(y)
		if math.Abs(y-r) <= 1e-6*math.Max(1, math.Abs(y)) {
			lo, hi = r, r
		}
		return J{"lo": int64(lo), "hi": int64(hi)}
	}
	return int64(r)
}

func (p *projector) proj(v interface{}, key string) interface{} {
	switch t := v.(type) {
	case nil:
		if listKeys[key] {
			return []interface{}{}
		}
		return J{"isnull": true}
	case float64:
		if p.vscale > 0 && key == "value" {
			t /= p.vscale
		}
		return p.num(t, key)
	case json.Number:
		f, _ := t.Float64()
		if p.vscale > 0 && key == "value" {
			f /= p.vscale
		}
		return p.num(f, key)
	case map[string]interface{}:
		out := make(J, len(t))
		for k, x := range t {
			if f, ok := x.(float64); ok && p.vscale > 0 && key == "criteria" {
				out[k] = p.num(f/p.vscale, k)
				continue
			}
			out[k] = p.proj(x, k)
		}
		return out
	case []interface{}:
		out := make([]interface{}, len(t))
		for i, x := range t {
			out[i] = p.proj(x, key)
		}
		return out
	default:
		return v
	}
}

// ---------- running one request through the real handler ----------

var engine *gin.Engine

func newEngine() *gin.Engine {
	gin.SetMode(gin.ReleaseMode)
	r := gin.New()
	api := r.Group("/api")
	api.POST("/decide", decideHandler)
	api.GET("/preferenceFunctions", functionsHandler)
	return r
}

func post(body []byte) (int, []byte) {
	w := httptest.NewRecorder()
	req := httptest.NewRequest("POST", "/api/decide", bytes.NewReader(body))
	req.Header.Set("Content-Type", "application/json")
	engine.ServeHTTP(w, req)
	return w.Code, w.Body.Bytes()
}

func getFunctions() (int, []byte) {
	w := httptest.NewRecorder()
	req := httptest.NewRequest("GET", "/api/preferenceFunctions", nil)
	engine.ServeHTTP(w, req)
	return w.Code, w.Body.Bytes()
}

func parseBody(b []byte) interface{} {
	var v interface{}
	dec := json.NewDecoder(bytes.NewReader(b))
	if err := dec.Decode(&v); err != nil {
		return J{"unparsable": string(b)}
	}
	return v
}

func unitOf(c J) float64 {
	if u, ok := c["unit"].(float64); ok && u > 0 {
		return u
	}
	return 1
}

func str(c J, k, def string) string {
	if s, ok := c[k].(string); ok {
		return s
	}
	return def
}

func readCases(path string) []J {
	f, err := os.Open(path)
	if err != nil {
		die(2, "open cases: %v", err)
	}
	defer f.Close()
	var out []J
	rd := bufio.NewReaderSize(f, 1<<20)
	for {
		line, err := rd.ReadBytes('\n')
		if len(bytes.TrimSpace(line)) > 0 {
			var c J
			if e := json.Unmarshal(line, &c); e != nil {
				die(2, "bad case line %d: %v", len(out)+1, e)
			}
			out = append(out, c)
		}
		if err == io.EOF {
			break
		}
		if err != nil {
			die(2, "read cases: %v", err)
		}
	}
	return out
}

type obsWriter struct {
	w *bufio.Writer
	n int
}

func (o *obsWriter) emit(v interface{}) {
	b, err := json.Marshal(v)
	if err != nil {
		die(2, "marshal obs: %v", err)
	}
	o.w.Write(b)
	o.w.WriteByte('\n')
	o.n++
}

func sortedKeys(m map[string]interface{}) []string {
	ks := make([]string, 0, len(m))
	for k := range m {
		ks = append(ks, k)
	}
	sort.Strings(ks)
	return ks
}

func main() {
	mode := flag.String("mode", "decide", "decide | distil | cred | levels | hist | conc | serve-script")
	in := flag.String("in", "", "cases ndjson")
	out := flag.String("out", "", "observations ndjson")
	flag.StringVar(&serverBinary, "server", "", "real server binary (serve mode)")
	flag.Parse()
	if *in == "" || *out == "" {
		die(2, "need -in and -out")
	}
	log0()
	engine = newEngine()
	cases := readCases(*in)
	f, err := os.Create(*out)
	if err != nil {
		die(2, "create out: %v", err)
	}
	ow := &obsWriter{w: bufio.NewWriterSize(f, 1<<20)}
	switch *mode {
	case "decide":
		for _, c := range cases {
			runDecideCase(c, ow)
		}
	case "distil":
		for _, c := range cases {
			runDistilCase(c, ow)
		}
	case "levels":
		for _, c := range cases {
			runLevelsCase(c, ow)
		}
	case "serve":
		runServe(cases, ow)
	case "hist":
		runHistories(cases, ow)
	case "conc":
		runConcurrent(cases, ow)
	case "screen":
		runScreen(cases, ow)
	default:
		die(2, "unknown mode %s", *mode)
	}
	ow.w.Flush()
	f.Close()
	fmt.Printf("harness: mode=%s cases=%d obs=%d\n", *mode, len(cases), ow.n)
	if strings.Contains(os.Getenv("VERIF_DEBUG"), "harness") {
		fmt.Fprintf(os.Stderr, "done\n")
	}
}
