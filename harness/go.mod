module verifharness

go 1.12

require (
	github.com/Azbesciak/RealDecisionMaker/lib v0.0.0-20200913101259-ca28aad3eea7
	github.com/gin-contrib/cors v1.3.0
	github.com/gin-gonic/contrib v0.0.0-20190923054218-35076c1b2bea
	github.com/gin-gonic/gin v1.4.0
	github.com/go-errors/errors v1.0.1
)

replace github.com/Azbesciak/RealDecisionMaker/lib => /repo/lib
