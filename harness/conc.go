package main

import (
	"encoding/json"
	"fmt"
	"os"
	"sync"

	"github.com/Azbesciak/RealDecisionMaker/lib/model"
	"github.com/Azbesciak/RealDecisionMaker/lib/utils"
)

// ---------- hist mode (C02): every case executed `repeat` times in this process; one event per execution ----------

func caseBody(c J) []byte {
	if raw, ok := c["rawBody"].(string); ok {
		return []byte(raw)
	}
	t := realise(c["req"], "", "", unitOf(c))
	applyNudges(t, c)
	b, err := json.Marshal(t)
	if err != nil {
		die(2, "case %v: marshal: %v", c["id"], err)
	}
	return b
}

func runHistories(cases []J, ow *obsWriter) {
	proc := os.Getenv("VERIF_PROC")
	seq := 0
	for _, c := range cases {
		body := caseBody(c)
		rep := 1
		if r, ok := c["repeat"].(float64); ok && r > 1 {
			rep = int(r)
		}
		for i := 0; i < rep; i++ {
			st, b := post(body)
			seq++
			ow.emit(J{"case": J{"id": c["id"]}, "rid": c["rid"], "proc": proc, "seq": seq, "status": st, "digest": rawDigest(st, b)})
		}
	}
}

// ---------- conc mode (C10) ----------

func soloDigest(body []byte) string {
	st, b := post(body)
	return rawDigest(st, b)
}

// libDecision runs one decision on the library path against main.go's process-wide registries.
func libDecision(body []byte, dmOut **model.DecisionMaker) string {
	var dm model.DecisionMaker
	if err := json.Unmarshal(body, &dm); err != nil {
		return "status400"
	}
	if dmOut != nil {
		*dmOut = &dm
	}
	var choice *model.DecisionMakerChoice
	var perr interface{}
	func() {
		defer func() { perr = recover() }()
		choice = dm.MakeDecision(funcs, biasListeners, &biases, utils.RandomBasedSeedValueGenerator)
	}()
	if perr != nil {
		return "status400"
	}
	b, _ := json.Marshal(choice)
	return rawDigest(200, b)
}

type gateCtl struct {
	mu      sync.Mutex
	client  map[*model.DecisionMaker]int
	turn    []chan struct{}
	arrived chan int // client reports: at a gate (id) or finished (-id-1)
	order   []interface{}
}

var curGate *gateCtl

func installGateHook() {
	model.VerifHook = func(ev model.VerifEvent) {
		g := curGate
		if g == nil {
			if curRec != nil { // recorder hook of decide mode is not installed in conc mode; nothing to do
			}
			return
		}
		g.mu.Lock()
		c, ok := g.client[ev.DM]
		g.mu.Unlock()
		if !ok {
			return
		}
		g.arrived <- c // at a gate
		<-g.turn[c]    // wait for the scheduler's grant
		g.mu.Lock()
		g.order = append(g.order, []interface{}{c + 1, ev.Kind})
		g.mu.Unlock()
	}
}

func runGated(c J, bodies [][]byte, ow *obsWriter) {
	n := len(bodies)
	solo := make([]interface{}, n)
	for i, b := range bodies {
		solo[i] = libDecision(b, nil)
	}
	sched := c["schedule"].([]interface{})
	g := &gateCtl{client: map[*model.DecisionMaker]int{}, turn: make([]chan struct{}, n), arrived: make(chan int, 4*n), order: []interface{}{}}
	for i := range g.turn {
		g.turn[i] = make(chan struct{})
	}
	// decode first so that the DM pointers are known before any hook fires
	dms := make([]*model.DecisionMaker, n)
	decodeFail := make([]bool, n)
	for i, b := range bodies {
		dm := &model.DecisionMaker{}
		if err := json.Unmarshal(b, dm); err != nil {
			decodeFail[i] = true
		}
		dms[i] = dm
		g.client[dm] = i
	}
	curGate = g
	res := make([]interface{}, n)
	finished := make([]bool, n)
	atGate := make([]bool, n)
	var wg sync.WaitGroup
	for i := 0; i < n; i++ {
		wg.Add(1)
		go func(i int) {
			defer wg.Done()
			defer func() { g.arrived <- -i - 1 }()
			if decodeFail[i] {
				res[i] = "status400"
				return
			}
			var choice *model.DecisionMakerChoice
			var perr interface{}
			func() {
				defer func() { perr = recover() }()
				choice = dms[i].MakeDecision(funcs, biasListeners, &biases, utils.RandomBasedSeedValueGenerator)
			}()
			if perr != nil {
				res[i] = "status400"
				return
			}
			b, _ := json.Marshal(choice)
			res[i] = rawDigest(200, b)
		}(i)
	}
	// every client runs up to its first gate (or finishes)
	wait := func(target int) {
		for !(atGate[target] || finished[target]) {
			v := <-g.arrived
			if v >= 0 {
				atGate[v] = true
			} else {
				finished[-v-1] = true
			}
		}
	}
	for i := 0; i < n; i++ {
		wait(i)
	}
	granted := 0
	for _, s := range sched {
		ci := int(s.(float64)) - 1
		if ci < 0 || ci >= n || finished[ci] {
			continue
		}
		atGate[ci] = false
		g.turn[ci] <- struct{}{}
		granted++
		wait(ci)
	}
	// release whatever is left (schedule shorter than the gates that occurred)
	for {
		all := true
		for i := 0; i < n; i++ {
			if !finished[i] {
				all = false
				if atGate[i] {
					atGate[i] = false
					g.turn[i] <- struct{}{}
				}
				wait(i)
			}
		}
		if all {
			break
		}
	}
	wg.Wait()
	curGate = nil
	ow.emit(J{"case": c, "solo": solo, "conc": res, "order": g.order, "granted": granted})
}

func runFree(c J, bodies [][]byte, ow *obsWriter) {
	n := len(bodies)
	workers := 16
	if w, ok := c["workers"].(float64); ok {
		workers = int(w)
	}
	iters := 50
	if w, ok := c["iterations"].(float64); ok {
		iters = int(w)
	}
	// The concurrent phase comes FIRST, on a cold process: lazily filled caches and prototypes are hit by several
	// goroutines at once.  The solo reference of every request is taken afterwards, sequentially.
	var mu sync.Mutex
	seen := make([]map[string]int, n)
	for i := range seen {
		seen[i] = map[string]int{}
	}
	total := 0
	var wg sync.WaitGroup
	for w := 0; w < workers; w++ {
		wg.Add(1)
		go func(w int) {
			defer wg.Done()
			for it := 0; it < iters; it++ {
				// even workers walk the pool in step (identical requests run simultaneously, cold at their first
				// use), odd workers are spread over it
				k := it % n
				if w%2 == 1 {
					k = (w*7 + it) % n
				}
				d := soloDigest(bodies[k])
				mu.Lock()
				total++
				seen[k][d]++
				mu.Unlock()
			}
		}(w)
	}
	wg.Wait()
	mismatch := 0
	firstBad := -1
	for k, b := range bodies {
		solo := soloDigest(b)
		for d, cnt := range seen[k] {
			if d != solo {
				mismatch += cnt
				if firstBad < 0 {
					firstBad = k
				}
			}
		}
	}
	st, _ := getFunctions()
	ow.emit(J{"case": c, "total": total, "mismatch": mismatch, "firstBad": firstBad, "fnStatus": st})
}

func runConcurrent(cases []J, ow *obsWriter) {
	installGateHook()
	for _, c := range cases {
		reqs, ok := c["reqs"].([]interface{})
		if !ok {
			die(2, "conc case %v without reqs", c["id"])
		}
		bodies := make([][]byte, len(reqs))
		for i, r := range reqs {
			bodies[i] = caseBody(J{"req": r, "unit": c["unit"], "id": c["id"]})
		}
		if free, _ := c["free"].(bool); free {
			runFree(c, bodies, ow)
		} else {
			runGated(c, bodies, ow)
		}
	}
	fmt.Fprintf(os.Stderr, "")
}
