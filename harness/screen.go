package main

// Screen mode: a large number of generated cases is run through the real code first and only the cases worth a
// TLC evaluation are kept - those on which a cheap Go-side pre-check of a relation is suspicious, plus an evenly
// spread sample of the others.  The pre-check decides nothing: every kept case is run again in decide mode and
// judged by the TLC contracts of its trace specification; a case dropped here was merely not handed to TLC.

import (
	"encoding/json"
	"fmt"
	"time"

	"github.com/Azbesciak/RealDecisionMaker/lib/model"
	"github.com/Azbesciak/RealDecisionMaker/lib/utils"
)

func fnum(v interface{}) float64 {
	f, _ := v.(float64)
	return f
}

// dominance / identity relation of C06 on an ELECTRE III response; true = suspicious
func suspiciousC06(req J, choice *model.DecisionMakerChoice) bool {
	types := map[string]string{}
	var crits []string
	for _, c := range req["criteria"].([]interface{}) {
		cm := c.(map[string]interface{})
		id := cm["id"].(string)
		t, _ := cm["type"].(string)
		if t == "" {
			t = "gain"
		}
		types[id] = t
		crits = append(crits, id)
	}
	vals := map[string]map[string]float64{}
	for _, a := range req["knownAlternatives"].([]interface{}) {
		am := a.(map[string]interface{})
		row := map[string]float64{}
		for k, v := range am["criteria"].(map[string]interface{}) {
			row[k] = fnum(v)
		}
		vals[am["id"].(string)] = row
	}
	tree, _ := jsonTree(choice).(map[string]interface{})
	res, _ := tree["result"].([]interface{})
	asc, desc := map[string]float64{}, map[string]float64{}
	links := map[string]map[string]bool{}
	var ids []string
	for _, e := range res {
		em := e.(map[string]interface{})
		id := em["alternative"].(map[string]interface{})["id"].(string)
		ev, _ := em["evaluation"].(map[string]interface{})
		if ev == nil {
			return true
		}
		asc[id], desc[id] = fnum(ev["ascendingIndex"]), fnum(ev["descendingIndex"])
		links[id] = map[string]bool{}
		if l, ok := em["betterThanOrSameAs"].([]interface{}); ok {
			for _, x := range l {
				links[id][x.(string)] = true
			}
		}
		ids = append(ids, id)
	}
	for _, a := range ids {
		for _, b := range ids {
			if a == b {
				continue
			}
			dom := true
			for _, c := range crits {
				if (types[c] == "cost" && vals[a][c] > vals[b][c]) || (types[c] != "cost" && vals[a][c] < vals[b][c]) {
					dom = false
					break
				}
			}
			if dom && (asc[a] > asc[b] || desc[a] > desc[b] || !links[a][b]) {
				return true
			}
		}
	}
	return false
}

const maxSuspicious = 150

func screenOne(c J) (suspicious bool) {
	defer func() {
		if r := recover(); r != nil {
			suspicious = true
		}
	}()
	reqTree := realise(c["req"], "", "", unitOf(c))
	b, err := json.Marshal(reqTree)
	if err != nil {
		return true
	}
	var dm model.DecisionMaker
	if err := json.Unmarshal(b, &dm); err != nil {
		return true
	}
	choice := dm.MakeDecision(funcs, biasListeners, &biases, utils.RandomBasedSeedValueGenerator)
	switch str(c, "screen", "") {
	case "c06":
		return suspiciousC06(reqTree.(map[string]interface{}), choice)
	}
	return false
}

// writes one line per kept case: {"id": ..., "suspicious": bool}
func runScreen(cases []J, ow *obsWriter) {
	every := 1
	if len(cases) > 0 {
		if k, ok := cases[0]["screenKeepEvery"].(float64); ok && k >= 1 {
			every = int(k)
		}
	}
	sus, hung := 0, 0
	for i, c := range cases {
		ch := make(chan bool, 1)
		go func(c J) { ch <- screenOne(c) }(c)
		s := true
		select {
		case s = <-ch:
		case <-time.After(25 * time.Second):
			hung++
		}
		if s {
			sus++
		}
		// at most maxSuspicious suspicious cases are handed on (a change that breaks the relation everywhere would
		// otherwise hand every case to TLC); the count of all of them is printed
		if (s && sus <= maxSuspicious) || (!s && i%every == 0) {
			ow.emit(J{"id": c["id"], "suspicious": s})
		}
		if hung >= maxStuck {
			break
		}
	}
	fmt.Printf("screen: cases=%d suspicious=%d hung=%d\n", len(cases), sus, hung)
}
