package main

import (
	"bytes"
	"crypto/sha256"
	"encoding/hex"
	"encoding/json"
	"fmt"
	"io/ioutil"
	"math"
	"strings"
	"log"
	"reflect"
	"sort"
	"sync"
	"time"

	"github.com/Azbesciak/RealDecisionMaker/lib/logic/preference-func/electreIII"
	"github.com/Azbesciak/RealDecisionMaker/lib/model"
	"github.com/Azbesciak/RealDecisionMaker/lib/utils"
)

func log0() { log.SetOutput(ioutil.Discard) }

// ---------- reflective canonical dump (reads unexported fields, sorted maps) ----------

func dumpValue(v reflect.Value, depth int) interface{} {
	if depth > 40 {
		return "<deep>"
	}
	if !v.IsValid() {
		return nil
	}
	switch v.Kind() {
	case reflect.Ptr, reflect.Interface:
		if v.IsNil() {
			return nil
		}
		return dumpValue(v.Elem(), depth+1)
	case reflect.Struct:
		out := J{}
		t := v.Type()
		for i := 0; i < v.NumField(); i++ {
			f := v.Field(i)
			if f.Kind() == reflect.Func {
				continue
			}
			out[t.Field(i).Name] = dumpValue(f, depth+1)
		}
		return out
	case reflect.Map:
		if v.IsNil() {
			return nil
		}
		out := J{}
		for _, k := range v.MapKeys() {
			out[fmt.Sprint(dumpValue(k, depth+1))] = dumpValue(v.MapIndex(k), depth+1)
		}
		return out
	case reflect.Slice:
		if v.IsNil() {
			return nil
		}
		fallthrough
	case reflect.Array:
		out := make([]interface{}, v.Len())
		for i := 0; i < v.Len(); i++ {
			out[i] = dumpValue(v.Index(i), depth+1)
		}
		return out
	case reflect.Float32, reflect.Float64:
		return v.Float()
	case reflect.Int, reflect.Int8, reflect.Int16, reflect.Int32, reflect.Int64:
		return float64(v.Int())
	case reflect.Uint, reflect.Uint8, reflect.Uint16, reflect.Uint32, reflect.Uint64:
		return float64(v.Uint())
	case reflect.String:
		return v.String()
	case reflect.Bool:
		return v.Bool()
	case reflect.Func:
		return "<func>"
	default:
		return "<" + v.Kind().String() + ">"
	}
}

func dump(x interface{}) interface{} { return dumpValue(reflect.ValueOf(x), 0) }

// noNaN makes a dumped tree marshalable: the code under test may produce NaN / Inf
func noNaN(v interface{}) interface{} {
	switch t := v.(type) {
	case float64:
		if math.IsNaN(t) || math.IsInf(t, 0) {
			return fmt.Sprint(t)
		}
		return t
	case J:
		for k, x := range t {
			t[k] = noNaN(x)
		}
		return t
	case []interface{}:
		for i, x := range t {
			t[i] = noNaN(x)
		}
		return t
	}
	return v
}

func digest(x interface{}) string {
	b, err := json.Marshal(noNaN(dump(x))) // encoding/json sorts map keys
	if err != nil {
		die(2, "digest marshal: %v", err)
	}
	s := sha256.Sum256(b)
	return hex.EncodeToString(s[:8])
}

// ---------- state projection ----------

func dumpAlts(a []model.AlternativeWithCriteria) []interface{} {
	out := make([]interface{}, len(a))
	for i, x := range a {
		cr := J{}
		for k, v := range x.Criteria {
			cr[k] = v
		}
		out[i] = J{"id": x.Id, "criteria": cr}
	}
	return out
}

func dumpCriteria(c model.Criteria) []interface{} {
	out := make([]interface{}, len(c))
	for i, x := range c {
		e := J{"id": x.Id, "type": string(x.Type)}
		if x.ValuesRange != nil {
			e["range"] = J{"min": x.ValuesRange.Min, "max": x.ValuesRange.Max}
		}
		out[i] = e
	}
	return out
}

func dumpState(p *model.DecisionMakingParams) interface{} {
	if p == nil {
		return J{"isnil": true}
	}
	params := dump(p.MethodParameters)
	ws := weightSets(params)
	if pm, ok := params.(J); ok && len(ws) > 0 {
		if w, ok := pm["weights"].(J); ok && len(w) > 8 { // Choquet capacity table: keep the set form only
			pm["weights"] = J{"listed": "weightSets"}
		}
	}
	return J{
		"criteria":      dumpCriteria(p.Criteria),
		"considered":    dumpAlts(p.ConsideredAlternatives),
		"notConsidered": dumpAlts(p.NotConsideredAlternatives),
		"params":        params,
		"weightSets":    ws,
		"levelParams":   levelParams(params),
	}
}

func ciGet(m J, key string) (interface{}, bool) {
	for k, v := range m {
		if strings.EqualFold(k, key) {
			return v, true
		}
	}
	return nil, false
}

// levelParams normalises the `params` of the two threshold heuristics, which are a raw request map
// before any bias and a typed iterator struct after a listener rebuilt them (same content, other
// key case): {kind:"thresholds", thresholds:[...]} | {kind:"coef", coefficient, minValue, maxValue}.
func levelParams(params interface{}) interface{} {
	m, ok := params.(J)
	if !ok {
		return J{"kind": "none"}
	}
	pv, ok := ciGet(m, "Params")
	if !ok {
		return J{"kind": "none"}
	}
	pm, ok := pv.(J)
	if !ok {
		return J{"kind": "none"}
	}
	if t, ok := ciGet(pm, "thresholds"); ok {
		if t == nil {
			t = []interface{}{}
		}
		return J{"kind": "thresholds", "thresholds": t}
	}
	out := J{"kind": "coef", "coefficient": 0.0, "minValue": 0.0, "maxValue": 0.0}
	for _, k := range []string{"coefficient", "minValue", "maxValue"} {
		if v, ok := ciGet(pm, k); ok {
			out[k] = v
		}
	}
	return out
}

// weightSets lists a `weights` map (criterion or "c1,c2" union keys) as [{set:[ids], w:x}] so that
// the specification can look capacities up by criteria SET (TLC cannot split or order strings).
func weightSets(params interface{}) []interface{} {
	out := []interface{}{}
	m, ok := params.(J)
	if !ok {
		return out
	}
	var ws J
	for _, k := range []string{"weights", "Weights"} {
		if w, ok := m[k].(J); ok {
			ws = w
		}
	}
	for _, k := range sortedKeys(ws) {
		parts := strings.Split(k, ",")
		set := make([]interface{}, len(parts))
		for i, s := range parts {
			set[i] = s
		}
		out = append(out, J{"set": set, "w": ws[k]})
	}
	return out
}

// applyNudges adds k*2^-e to selected criterion values: {"nudge":[{"alt":..,"crit":..,"k":1,"e":30}]}
func applyNudges(req interface{}, c J) {
	ns, ok := c["nudge"].([]interface{})
	if !ok {
		return
	}
	r, _ := req.(map[string]interface{})
	alts, _ := r["knownAlternatives"].([]interface{})
	for _, n := range ns {
		nm := n.(map[string]interface{})
		for _, a := range alts {
			am := a.(map[string]interface{})
			if am["id"] == nm["alt"] {
				cr := am["criteria"].(map[string]interface{})
				cr[nm["crit"].(string)] = cr[nm["crit"].(string)].(float64) + nm["k"].(float64)*math.Pow(2, -nm["e"].(float64))
			}
		}
	}
}

func altOrder(req interface{}) []interface{} {
	out := []interface{}{}
	r, ok := req.(map[string]interface{})
	if !ok {
		return out
	}
	alts, _ := r["knownAlternatives"].([]interface{})
	ids := []string{}
	for _, a := range alts {
		if am, ok := a.(map[string]interface{}); ok {
			if s, ok := am["id"].(string); ok {
				ids = append(ids, s)
			}
		}
	}
	sort.Strings(ids)
	for _, s := range ids {
		out = append(out, s)
	}
	return out
}

// probe: does the method evaluate / rank criteria on a copy of this state? (operational meaning of
// "parameters cover every current criterion"; run on copies so the probed state is not disturbed)
func probeState(method string, p *model.DecisionMakingParams) (evalOk bool, rankOk bool, why string) {
	cp := func() *model.DecisionMakingParams {
		c := &model.DecisionMakingParams{
			ConsideredAlternatives:    append([]model.AlternativeWithCriteria{}, p.ConsideredAlternatives...),
			NotConsideredAlternatives: append([]model.AlternativeWithCriteria{}, p.NotConsideredAlternatives...),
			Criteria:                  append(model.Criteria{}, p.Criteria...),
			MethodParameters:          p.MethodParameters,
		}
		return c
	}
	func() {
		defer func() {
			if e := recover(); e != nil {
				why = fmt.Sprint(e)
			}
		}()
		pf := funcs.Fetch(method)
		(*pf).Evaluate(cp())
		evalOk = true
	}()
	func() {
		defer func() {
			if e := recover(); e != nil {
				why = fmt.Sprint(e)
			}
		}()
		l := biasListeners.Fetch(method)
		r := (*l).RankCriteriaAscending(cp())
		rankOk = len(*r) == len(p.Criteria)
		if !rankOk {
			why = fmt.Sprintf("ranked %d of %d criteria", len(*r), len(p.Criteria))
		}
	}()
	return
}

// ---------- hook plumbing ----------

type liveEvent struct {
	rec      J
	after    *model.DecisionMakingParams
	original *model.DecisionMakingParams
	report   interface{}
}

type recorder struct {
	mu     sync.Mutex
	events []*liveEvent
	method string
	probe  bool
	full   bool
}

var curRec *recorder

func installHook() {
	model.VerifHook = func(ev model.VerifEvent) {
		r := curRec
		if r == nil {
			return
		}
		r.mu.Lock()
		defer r.mu.Unlock()
		rec := J{"kind": ev.Kind, "index": ev.Index, "fired": ev.Fired}
		if r.full {
			rec["after"] = dumpState(ev.After)
			if ev.Kind == "bias" {
				// the state before this step is the `after` of the previous event (same object): not repeated
				rec["report"] = jsonTree(ev.Report)
			}
		}
		rec["stDigAt"] = digest(ev.After)
		rec["origDigAt"] = digest(ev.Original)
		if ev.Kind == "bias" {
			rec["repDigAt"] = digest(ev.Report)
			rec["samePtr"] = ev.Before == ev.After
		}
		if ev.Kind == "evaluate" && r.method == "electreIII" && ev.After != nil {
			if c := credMatrix(ev.After); c != nil {
				rec["cred"] = c
			}
		}
		if r.probe && ev.After != nil {
			eo, ro, why := probeState(r.method, ev.After)
			rec["probeEval"] = eo
			rec["probeRank"] = ro
			if why != "" {
				rec["probeWhy"] = why
			}
		}
		r.events = append(r.events, &liveEvent{rec: rec, after: ev.After, original: ev.Original, report: ev.Report})
	}
}

// credMatrix records stage 1 of ELECTRE III (hook H2): the credibility matrix the method derives from the state
// it is handed, as integers of 1e-6 (key cred6 is not rescaled by the projector).
func credMatrix(p *model.DecisionMakingParams) (out interface{}) {
	defer func() {
		if recover() != nil {
			out = nil
		}
	}()
	f := reflect.ValueOf(p.MethodParameters).FieldByName("Criteria")
	if !f.IsValid() || f.IsNil() {
		return nil
	}
	ec, ok := f.Interface().(*electreIII.ElectreCriteria)
	if !ok {
		return nil
	}
	alts := append([]model.AlternativeWithCriteria{}, p.ConsideredAlternatives...)
	crit := append(model.Criteria{}, p.Criteria...)
	m := electreIII.VerifCredibilityMatrix(&alts, &crit, ec)
	ids := []interface{}{}
	for _, a := range *m.Alternatives {
		ids = append(ids, a)
	}
	n := m.Values.Size
	rows := make([]interface{}, n)
	for i := 0; i < n; i++ {
		row := make([]interface{}, n)
		for j := 0; j < n; j++ {
			row[j] = math.Round(m.Values.At(i, j) * 1e6)
		}
		rows[i] = row
	}
	return J{"alts": ids, "cred6": rows}
}

// jsonTree marshals x the way the API does and parses it back to a generic tree.
func jsonTree(x interface{}) interface{} {
	b, err := json.Marshal(x)
	if err != nil {
		return J{"unmarshalable": err.Error()}
	}
	return parseBody(b)
}

func sliceHdr(v interface{}) interface{} {
	rv := reflect.ValueOf(v)
	if rv.Kind() != reflect.Slice {
		return nil
	}
	return J{"ptr": fmt.Sprintf("%x", rv.Pointer()), "len": float64(rv.Len()), "cap": float64(rv.Cap())}
}

// ---------- one decision ----------

type decideOut struct {
	status int
	body   interface{}
	events []interface{}
	extra  J
}

func decideOnce(reqBytes []byte, via string, hook, probe, full bool, method string) decideOut {
	var rec *recorder
	if hook {
		rec = &recorder{method: method, probe: probe, full: full}
		curRec = rec
		defer func() { curRec = nil }()
	}
	out := decideOut{extra: J{}}
	switch via {
	case "http":
		st, b := post(reqBytes)
		out.status, out.body = st, parseBody(b)
	case "lib", "libexact":
		var dm model.DecisionMaker
		if err := json.Unmarshal(reqBytes, &dm); err != nil {
			out.status, out.body = 400, J{"error": "bind: " + err.Error()}
			break
		}
		if via == "libexact" { // exact-capacity slices (JSON decoding usually leaves spare capacity)
			dm.KnownAlternatives = append(make([]model.AlternativeWithCriteria, 0, len(dm.KnownAlternatives)), dm.KnownAlternatives...)
			dm.ChoseToMake = append(make([]string, 0, len(dm.ChoseToMake)), dm.ChoseToMake...)
			dm.Criteria = append(make(model.Criteria, 0, len(dm.Criteria)), dm.Criteria...)
		}
		out.extra["reqDigBefore"] = digest(&dm)
		out.extra["reqHdrBefore"] = J{"known": sliceHdr(dm.KnownAlternatives), "chose": sliceHdr(dm.ChoseToMake), "criteria": sliceHdr(dm.Criteria)}
		var choice *model.DecisionMakerChoice
		var perr interface{}
		func() {
			defer func() { perr = recover() }()
			choice = dm.MakeDecision(funcs, biasListeners, &biases, utils.RandomBasedSeedValueGenerator)
		}()
		out.extra["reqDigAfter"] = digest(&dm)
		out.extra["reqHdrAfter"] = J{"known": sliceHdr(dm.KnownAlternatives), "chose": sliceHdr(dm.ChoseToMake), "criteria": sliceHdr(dm.Criteria)}
		if perr != nil {
			out.status, out.body = 400, J{"error": fmt.Sprint(perr)}
		} else {
			out.status, out.body = 200, jsonTree(choice)
			out.extra["choiceDig"] = digest(choice)
			if rec != nil {
				// re-digest, after the whole decision, what each bias reported / handed on
				bi := 0
				for _, le := range rec.events {
					le.rec["stDigEnd"] = digest(le.after)
					le.rec["origDigEnd"] = digest(le.original)
					if le.rec["kind"] == "bias" {
						if bi < len(choice.Biases) {
							le.rec["repDigEnd"] = digest(choice.Biases[bi])
						}
						bi++
					}
				}
			}
			keepChoice(choice)
		}
	default:
		die(2, "unknown via %q", via)
	}
	if rec != nil {
		for _, le := range rec.events {
			out.events = append(out.events, le.rec)
		}
	}
	return out
}

// earlier results kept alive to check that later calls do not modify them (C09)
type kept struct {
	choice *model.DecisionMakerChoice
	dig    string
}

var keptChoices []kept

func keepChoice(c *model.DecisionMakerChoice) {
	if len(keptChoices) < 64 {
		keptChoices = append(keptChoices, kept{c, digest(c)})
	}
}

func keptStatus() (n int, changed int) {
	for _, k := range keptChoices {
		n++
		if digest(k.choice) != k.dig {
			changed++
		}
	}
	return
}

func methodOf(req interface{}) string {
	if m, ok := req.(map[string]interface{}); ok {
		if s, ok := m["preferenceFunction"].(string); ok {
			return s
		}
	}
	return ""
}

func boolOpt(c J, k string) bool {
	b, _ := c[k].(bool)
	return b
}

// a decision that does not come back (endless loop in the code under test) must not hang the run: it is
// recorded as unanswered (status 0) and left behind; after a few of them the remaining cases are not started
var stuck int

const maxStuck = 4

func withWatchdog(sec float64, f func() decideOut) (decideOut, bool) {
	ch := make(chan decideOut, 1)
	go func() { ch <- f() }()
	select {
	case o := <-ch:
		return o, true
	case <-time.After(time.Duration(sec * float64(time.Second))):
		return decideOut{status: 0, body: J{"error": "no answer within the watchdog time"}, extra: J{}}, false
	}
}

func runDecideCase(c J, ow *obsWriter) {
	if stuck >= maxStuck {
		return
	}
	var reqBytes []byte
	var reqTree interface{}
	if raw, ok := c["rawBody"].(string); ok {
		reqBytes = []byte(raw)
	} else {
		reqTree = realise(c["req"], "", "", unitOf(c))
		applyNudges(reqTree, c)
		if vs, ok := c["vscale"].(float64); ok && vs > 0 { // huge magnitudes: every criterion value times a power of two
			if rm, ok := reqTree.(map[string]interface{}); ok {
				if ka, ok := rm["knownAlternatives"].([]interface{}); ok {
					for _, a := range ka {
						if am, ok := a.(map[string]interface{}); ok {
							if cm, ok := am["criteria"].(map[string]interface{}); ok {
								for k, v := range cm {
									if f, ok := v.(float64); ok {
										cm[k] = f * vs
									}
								}
							}
						}
					}
				}
			}
		}
		b, err := json.Marshal(reqTree)
		if err != nil {
			die(2, "case %v: marshal request: %v", c["id"], err)
		}
		reqBytes = b
	}
	via := str(c, "via", "http")
	hook := boolOpt(c, "hook")
	if hook && model.VerifHook == nil {
		installHook()
	}
	p := &projector{unit: unitOf(c), mode: str(c, "num", "exact")}
	if vs, ok := c["vscale"].(float64); ok {
		p.vscale = vs
	}
	wd := 25.0
	if t, ok := c["timeoutSec"].(float64); ok {
		wd = t
	}
	o, answered := withWatchdog(wd, func() decideOut {
		return decideOnce(reqBytes, via, hook, boolOpt(c, "probe"), !boolOpt(c, "digestOnly"), methodOf(reqTree))
	})
	if !answered {
		stuck++
		curRec = nil
	}
	obs := J{"case": c, "status": o.status, "altOrder": altOrder(reqTree), "answered": answered}
	if boolOpt(c, "noResp") {
		obs["resp"] = J{}
	} else {
		obs["resp"] = p.proj(o.body, "")
	}
	if o.events != nil {
		obs["events"] = p.proj(interface{}(o.events), "events")
	} else {
		obs["events"] = []interface{}{}
	}
	for k, v := range o.extra {
		obs[k] = v
	}
	if rep, ok := c["repeat"].(float64); ok && rep > 1 {
		digs := []interface{}{bodyDigest(o.status, o.body)}
		for i := 1; i < int(rep); i++ {
			o2 := decideOnce(reqBytes, via, false, false, false, "")
			digs = append(digs, bodyDigest(o2.status, o2.body))
		}
		obs["repeatDigests"] = digs
	}
	obs["inexact"] = p.inexact
	obs["overflow"] = p.overflow
	if via != "http" {
		n, ch := keptStatus()
		obs["keptChoices"] = n
		obs["keptChanged"] = ch
	}
	ow.emit(obs)
}

func bodyDigest(status int, body interface{}) string {
	if status != 200 {
		return fmt.Sprintf("status%d", status)
	}
	b, _ := json.Marshal(body)
	s := sha256.Sum256(b)
	return hex.EncodeToString(s[:8])
}

func rawDigest(status int, body []byte) string {
	if status != 200 {
		return fmt.Sprintf("status%d", status)
	}
	s := sha256.Sum256(bytes.TrimSpace(body))
	return hex.EncodeToString(s[:8])
}

var _ = sort.Strings
