package main

import (
	"encoding/json"
	"fmt"

	satisfaction_levels "github.com/Azbesciak/RealDecisionMaker/lib/logic/limited-rationality/satisfaction-levels"
	"github.com/Azbesciak/RealDecisionMaker/lib/logic/preference-func/electreIII"
	"github.com/Azbesciak/RealDecisionMaker/lib/model"
	"github.com/Azbesciak/RealDecisionMaker/lib/utils"
)

// levels mode: drive the real level iterators that main.go wires to the two threshold heuristics
// (increasingSatisfactionLevels -> aspect elimination, decreasingSatisfactionLevels -> satisfaction)
// through their exported protocol Find -> Initialize -> HasNext/Next and record the whole series.
func runLevelsCase(c J, ow *obsWriter) {
	unit := unitOf(c)
	spec := realise(c["lv"], "", "", unit).(map[string]interface{})
	var crit model.Criteria
	var alts []model.AlternativeWithCriteria
	b, _ := json.Marshal(spec["criteria"])
	if err := json.Unmarshal(b, &crit); err != nil {
		die(2, "levels case %v: criteria: %v", c["id"], err)
	}
	b, _ = json.Marshal(spec["alternatives"])
	if err := json.Unmarshal(b, &alts); err != nil {
		die(2, "levels case %v: alternatives: %v", c["id"], err)
	}
	ncons := len(alts)
	if k, ok := spec["considered"].(float64); ok {
		ncons = int(k) // cases write it as {"int": k}, which realise leaves unscaled
	}
	dmp := &model.DecisionMakingParams{
		Criteria:                  crit,
		ConsideredAlternatives:    append([]model.AlternativeWithCriteria{}, alts[:ncons]...),
		NotConsideredAlternatives: append([]model.AlternativeWithCriteria{}, alts[ncons:]...),
	}
	sources := increasingSatisfactionLevels
	if spec["dir"] == "dec" {
		sources = decreasingSatisfactionLevels
	}
	p := &projector{unit: unit, mode: str(c, "num", "exact")}
	obs := J{"case": c}
	series := []interface{}{}
	capped := false
	var perr interface{}
	func() {
		defer func() { perr = recover() }()
		it := satisfaction_levels.Find(spec["function"].(string), spec["params"], sources)
		it.Initialize(dmp)
		for it.HasNext() {
			if len(series) >= 2000 {
				capped = true
				break
			}
			w := it.Next()
			m := J{}
			for k, v := range w {
				m[k] = v
			}
			series = append(series, m)
		}
	}()
	if perr != nil {
		obs["status"] = 400
		obs["error"] = fmt.Sprint(perr)
		obs["series"] = []interface{}{}
	} else {
		obs["status"] = 200
		obs["series"] = p.proj(interface{}(series), "series")
	}
	obs["capped"] = capped
	obs["inexact"] = p.inexact
	obs["overflow"] = p.overflow
	ow.emit(obs)
}

// distil mode: stage 2 of ELECTRE III on a given credibility matrix through the exported functions
// RankAscending / RankDescending / EvaluateRanking.
func runDistilCase(c J, ow *obsWriter) {
	unit := unitOf(c)
	d := realise(c["dist"], "", "", unit).(map[string]interface{})
	rows := d["matrix"].([]interface{})
	n := len(rows)
	vals := make([][]float64, n)
	ids := make(model.Alternatives, n)
	alts := make([]model.AlternativeWithCriteria, n)
	for i, r := range rows {
		rr := r.([]interface{})
		vals[i] = make([]float64, n)
		for j, v := range rr {
			vals[i][j] = v.(float64)
		}
		ids[i] = d["alts"].([]interface{})[i].(string)
		alts[i] = model.AlternativeWithCriteria{Id: ids[i]}
	}
	fun := utils.LinearFunctionParameters{A: d["a"].(float64), B: d["b"].(float64)}
	obs := J{"case": c}
	var perr interface{}
	func() {
		defer func() { perr = recover() }()
		m := &electreIII.AlternativesMatrix{Alternatives: &ids, Values: electreIII.NewMatrix(&vals)}
		asc := electreIII.RankAscending(m, &fun)
		m2 := &electreIII.AlternativesMatrix{Alternatives: &ids, Values: electreIII.NewMatrix(&vals)}
		desc := electreIII.RankDescending(m2, &fun)
		rk := electreIII.EvaluateRanking(asc, desc, &alts)
		obs["result"] = (&projector{unit: 1}).proj(jsonTree(rk), "result")
	}()
	if perr != nil {
		obs["status"] = 400
		obs["error"] = fmt.Sprint(perr)
		obs["result"] = []interface{}{}
	} else {
		obs["status"] = 200
	}
	ow.emit(obs)
}
