package main

func runDistilCase(c J, ow *obsWriter)    { die(2, "distil mode not built yet") }
func runLevelsCase(c J, ow *obsWriter)    { die(2, "levels mode not built yet") }
func runHistories(cases []J, ow *obsWriter)  { die(2, "hist mode not built yet") }
func runConcurrent(cases []J, ow *obsWriter) { die(2, "conc mode not built yet") }
